/* connector <ip> <port> <tcp|udp> <id>: bind to an ephemeral port, print it, wait for a line on stdin, connect,
 * report where the socket ended up (getpeername) and, for tcp, do one HTTP exchange. */
#include <arpa/inet.h>
#include <stdio.h>
#include <stdlib.h>
#include <string.h>
#include <sys/socket.h>
#include <unistd.h>
int main(int argc, char **argv)
{
    if (argc < 5) return 2;
    int tcp = strcmp(argv[3], "tcp") == 0;
    int s = socket(AF_INET, tcp ? SOCK_STREAM : SOCK_DGRAM, 0);
    struct sockaddr_in me = {0}, to = {0}, peer = {0};
    me.sin_family = AF_INET; me.sin_addr.s_addr = htonl(INADDR_ANY);
    int one = 1; setsockopt(s, SOL_SOCKET, SO_REUSEADDR, &one, sizeof one);
    if (bind(s, (struct sockaddr *)&me, sizeof me)) { perror("bind"); return 3; }
    socklen_t l = sizeof me; getsockname(s, (struct sockaddr *)&me, &l);
    printf("bound %d pid %d\n", ntohs(me.sin_port), getpid()); fflush(stdout);
    char line[64]; if (!fgets(line, sizeof line, stdin)) return 4;
    to.sin_family = AF_INET; to.sin_port = htons(atoi(argv[2])); inet_pton(AF_INET, argv[1], &to.sin_addr);
    struct timeval tv = {5, 0}; setsockopt(s, SOL_SOCKET, SO_RCVTIMEO, &tv, sizeof tv); setsockopt(s, SOL_SOCKET, SO_SNDTIMEO, &tv, sizeof tv);
    if (connect(s, (struct sockaddr *)&to, sizeof to)) { printf("connect-failed\n"); fflush(stdout); return 0; }
    l = sizeof peer; getpeername(s, (struct sockaddr *)&peer, &l);
    printf("peer %s:%d\n", inet_ntoa(peer.sin_addr), ntohs(peer.sin_port)); fflush(stdout);
    if (tcp) {
        char req[512]; int n = snprintf(req, sizeof req, "GET /k/%s HTTP/1.1\r\nHost: x\r\nx-vf-id: %s\r\n\r\n", argv[4], argv[4]);
        if (write(s, req, n) != n) { printf("write-failed\n"); return 0; }
        char buf[4096]; int got = read(s, buf, sizeof buf - 1);
        if (got > 0) { buf[got] = 0; char *e = strstr(buf, "\r\n"); if (e) *e = 0; printf("status %s\n", buf); if (e) printf("marker %d\n", strstr(e + 1, "x-ms-azure-host-authorization") != NULL); }
        else printf("no-response\n");
    }
    fflush(stdout);
    if (fgets(line, sizeof line, stdin)) {}
    return 0;
}

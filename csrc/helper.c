/* caller-identity helper: does nothing, forever (killed with the sandbox).
 * If its stdin is a pipe it first waits for one command line:
 *   "exec <path>\x1f<arg1>\x1f<arg2>...\n"  -> execv(path, [path, arg1, ...]) in the same pid (a process that becomes another program)
 * EOF or anything else -> just pause. */
#include <string.h>
#include <unistd.h>
int main(void) {
    static char buf[8192];
    ssize_t n = 0, k;
    while (n < (ssize_t)sizeof buf - 1 && (k = read(0, buf + n, sizeof buf - 1 - n)) > 0) {
        n += k;
        if (memchr(buf, '\n', n)) break;
    }
    if (n > 5 && !memcmp(buf, "exec ", 5)) {
        char *argv[64];
        int argc = 0;
        char *p = buf + 5;
        char *nl = memchr(buf, '\n', n);
        if (nl) *nl = 0; else buf[n] = 0;
        while (p && argc < 63) {
            char *sep = strchr(p, '\x1f');
            if (sep) *sep = 0;
            argv[argc++] = p;
            p = sep ? sep + 1 : 0;
        }
        argv[argc] = 0;
        execv(argv[0], argv);
    }
    for (;;) pause();
    return 0;
}

/* caller-identity helper: does nothing, forever (killed with the sandbox) */
#include <unistd.h>
int main(void) { for (;;) pause(); return 0; }

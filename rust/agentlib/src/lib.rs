// The unmodified agent sources compiled as a library: every `pub` item of the real crate is
// callable from the shim. `mod` declarations inside the included file resolve relative to it.
#![allow(dead_code, unused_imports, clippy::all)]
include!("/repo/proxy_agent/src/main.rs");

// The extension sources from /repo compiled as a library (see build.rs).
#![allow(non_snake_case, dead_code, unused_imports, clippy::all)]
include!(concat!(env!("OUT_DIR"), "/src/main.rs"));

// Copies the extension sources from /repo's working tree into OUT_DIR so that they can be
// compiled as a library: main.rs loses its leading inner attribute (not allowed under include!),
// and service_main.rs gains one wrapper that makes the private notification path callable.
use std::fs;
use std::path::Path;

fn copy_dir(src: &Path, dst: &Path) {
    fs::create_dir_all(dst).unwrap();
    for entry in fs::read_dir(src).unwrap() {
        let entry = entry.unwrap();
        let p = entry.path();
        let d = dst.join(entry.file_name());
        if p.is_dir() {
            copy_dir(&p, &d);
        } else {
            fs::copy(&p, &d).unwrap();
        }
    }
}

fn main() {
    let src = Path::new("/repo/proxy_agent_extension/src");
    println!("cargo:rerun-if-changed=/repo/proxy_agent_extension/src");
    println!("cargo:rerun-if-changed=/repo/proxy_agent_extension/src/service_main");
    let out = std::env::var("OUT_DIR").unwrap();
    let dst = Path::new(&out).join("src");
    let _ = fs::remove_dir_all(&dst);
    copy_dir(src, &dst);
    let main = fs::read_to_string(dst.join("main.rs")).unwrap();
    let main = main.replacen("#![allow(non_snake_case)]", "", 1);
    fs::write(dst.join("main.rs"), main).unwrap();
    let mut sm = fs::read_to_string(dst.join("service_main.rs")).unwrap();
    sm.push_str(
        r#"

/// verif wrapper: drives the real private `write_state_event`
pub fn verif_write_state_event(
    state_key: &str,
    state_value: &str,
    message: String,
    logger_key: &str,
    service_state: &mut ServiceState,
) {
    write_state_event(state_key, state_value, message, "verif", "verif", logger_key, service_state);
}

/// verif wrapper: the variables monitor_thread keeps across its loop iterations
pub struct VerifMonitor {
    pub status: StatusObj,
    pub state: common::StatusState,
    pub restored_in_error: bool,
    pub service_state: ServiceState,
    pub version_in_extension: String,
}

/// verif wrapper: same initial values as monitor_thread
pub fn verif_monitor_new(version_in_extension: &str) -> VerifMonitor {
    VerifMonitor {
        status: StatusObj {
            name: constants::PLUGIN_NAME.to_string(),
            operation: constants::ENABLE_OPERATION.to_string(),
            configurationAppliedTime: misc_helpers::get_date_time_string(),
            code: constants::STATUS_CODE_OK,
            status: constants::SUCCESS_STATUS.to_string(),
            formattedMessage: FormattedMessage {
                lang: constants::LANG_EN_US.to_string(),
                message: "Update Proxy Agent command output successfully".to_string(),
            },
            substatus: Default::default(),
        },
        state: common::StatusState::new(),
        restored_in_error: false,
        service_state: ServiceState::default(),
        version_in_extension: version_in_extension.to_string(),
    }
}

/// verif wrapper: the real private `report_proxy_agent_service_status` (outcome of the install command)
pub fn verif_monitor_update_report(
    m: &mut VerifMonitor,
    output: std::io::Result<std::process::Output>,
    status_folder: std::path::PathBuf,
    seq_no: &str,
) -> String {
    report_proxy_agent_service_status(output, status_folder, seq_no, &mut m.status, &mut m.state);
    m.status.status.clone()
}

/// verif wrapper: the real private `report_proxy_agent_aggregate_status` (one health observation),
/// followed by the status report monitor_thread makes after it
pub fn verif_monitor_poll(m: &mut VerifMonitor, status_folder: std::path::PathBuf, seq_no: &str) -> String {
    report_proxy_agent_aggregate_status(
        &m.version_in_extension,
        &mut m.status,
        &mut m.state,
        &mut m.restored_in_error,
        &mut m.service_state,
    );
    common::report_status(status_folder, seq_no, &m.status);
    m.status.status.clone()
}
"#,
    );
    fs::write(dst.join("service_main.rs"), sm).unwrap();
}

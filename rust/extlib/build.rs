// Copies the extension sources from /repo's working tree into OUT_DIR so that they can be
// compiled as a library: main.rs loses its leading inner attribute (not allowed under include!),
// and service_main.rs gains one wrapper that makes the private notification path callable.
use std::fs;
use std::path::Path;

fn copy_dir(src: &Path, dst: &Path) {
    fs::create_dir_all(dst).unwrap();
    for entry in fs::read_dir(src).unwrap() {
        let entry = entry.unwrap();
        let p = entry.path();
        let d = dst.join(entry.file_name());
        if p.is_dir() {
            copy_dir(&p, &d);
        } else {
            fs::copy(&p, &d).unwrap();
        }
    }
}

fn main() {
    let src = Path::new("/repo/proxy_agent_extension/src");
    println!("cargo:rerun-if-changed=/repo/proxy_agent_extension/src");
    println!("cargo:rerun-if-changed=/repo/proxy_agent_extension/src/service_main");
    let out = std::env::var("OUT_DIR").unwrap();
    let dst = Path::new(&out).join("src");
    let _ = fs::remove_dir_all(&dst);
    copy_dir(src, &dst);
    let main = fs::read_to_string(dst.join("main.rs")).unwrap();
    let main = main.replacen("#![allow(non_snake_case)]", "", 1);
    fs::write(dst.join("main.rs"), main).unwrap();
    let mut sm = fs::read_to_string(dst.join("service_main.rs")).unwrap();
    sm.push_str(
        r#"

/// verif wrapper: drives the real private `write_state_event`
pub fn verif_write_state_event(
    state_key: &str,
    state_value: &str,
    message: String,
    logger_key: &str,
    service_state: &mut ServiceState,
) {
    write_state_event(state_key, state_value, message, "verif", "verif", logger_key, service_state);
}
"#,
    );
    fs::write(dst.join("service_main.rs"), sm).unwrap();
}

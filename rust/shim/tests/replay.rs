// Corpus replays through the real agent/extension sources, meant to run under Miri
// (`cargo +nightly miri test -p gpa-shim --test replay`), which adds undefined-behaviour and data-race
// detection (including `unsafe` in dependencies reached from these paths) to the oracle verdicts.
// Corpora (cases + expected outcomes) are exported by the Python generators into $GPA_REPLAY_DIR.
use agentlib::common::hyper_client;
use agentlib::key_keeper::key::AuthorizationItem;
use agentlib::proxy::authorization_rules::ComputedAuthorizationItem;
use agentlib::proxy::proxy_connection::ConnectionLogger;
use agentlib::proxy::Claims;
use serde_json::Value;
use std::ffi::OsString;
use std::path::PathBuf;
use std::str::FromStr;

fn corpus(name: &str) -> Option<Vec<Value>> {
    let dir = std::env::var("GPA_REPLAY_DIR").ok()?;
    let path = format!("{dir}/{name}.json");
    if !std::path::Path::new(&path).exists() {
        return None;
    }
    let text = std::fs::read_to_string(&path).unwrap_or_else(|e| panic!("REPLAY-HARNESS cannot read {path}: {e}"));
    Some(serde_json::from_str(&text).unwrap_or_else(|e| panic!("REPLAY-HARNESS cannot parse {path}: {e}")))
}

fn done(name: &str, n: usize) {
    // results go to a file: stdout of passing tests is captured and `--nocapture` cannot be passed (clap, see vf/miri.py)
    if let Ok(dir) = std::env::var("GPA_REPLAY_DIR") {
        let _ = std::fs::write(format!("{dir}/{name}.done"), n.to_string());
    }
}

fn s(v: &Value, k: &str) -> String {
    v.get(k).and_then(|x| x.as_str()).unwrap_or("").to_string()
}

fn claims(v: &Value) -> Claims {
    Claims {
        userId: v["userId"].as_u64().unwrap_or(0),
        userName: s(v, "userName"),
        userGroups: v["userGroups"].as_array().map(|a| a.iter().map(|x| x.as_str().unwrap_or("").to_string()).collect()).unwrap_or_default(),
        processId: 1,
        processName: OsString::from(s(v, "processName")),
        processFullPath: PathBuf::from(s(v, "processFullPath")),
        processCmdLine: s(v, "processCmdLine"),
        runAsElevated: v["runAsElevated"].as_bool().unwrap_or(false),
        clientIp: "127.0.0.1".to_string(),
        clientPort: 1,
    }
}

#[test]
fn replay_rbac() {
    let Some(cases) = corpus("rbac") else { return };
    let mut n = 0;
    for c in cases {
        let item: AuthorizationItem = serde_json::from_value(c["item"].clone()).expect("item");
        let url = hyper::Uri::from_str(&s(&c, "url")).expect("uri");
        let computed = ComputedAuthorizationItem::from_authorization_item(item);
        let mut logger = ConnectionLogger::new(0, 0);
        let got = computed.is_allowed(&mut logger, url, claims(&c["claims"]));
        assert_eq!(got, c["expected"].as_bool().unwrap(), "REPLAY-MISMATCH rbac case {}", c);
        n += 1;
    }
    done("rbac", n);
}

#[test]
fn replay_sig_input() {
    let Some(cases) = corpus("sig") else { return };
    let mut n = 0;
    for c in cases {
        let mut builder = http::Request::builder().method(s(&c, "method").as_str()).uri(s(&c, "uri").as_str());
        for h in c["headers"].as_array().unwrap() {
            builder = builder.header(h[0].as_str().unwrap(), http::HeaderValue::from_bytes(&hex::decode(h[1].as_str().unwrap()).unwrap()).unwrap());
        }
        let (parts, _) = builder.body(()).unwrap().into_parts();
        let out = hyper_client::as_sig_input(parts, hyper::body::Bytes::from(hex::decode(s(&c, "body")).unwrap()));
        let accepted: Vec<String> = c["accepted"].as_array().unwrap().iter().map(|x| x.as_str().unwrap().to_string()).collect();
        assert!(accepted.contains(&hex::encode(&out)), "REPLAY-MISMATCH sig case {} got {}", c, String::from_utf8_lossy(&out));
        n += 1;
    }
    done("sig", n);
}

#[test]
fn replay_truncation_sites() {
    let Some(cases) = corpus("truncation") else { return };
    let rt = tokio::runtime::Builder::new_current_thread().build().unwrap();
    let mut n = 0;
    rt.block_on(async {
        let st = agentlib::shared_state::agent_status_wrapper::AgentStatusSharedState::start_new();
        for c in &cases {
            let text = s(c, "text");
            match s(c, "site").as_str() {
                "write_event" => proxy_agent_shared::telemetry::event_logger::write_event(
                    proxy_agent_shared::logger::LoggerLevel::Info, text, "replay", "replay", "none"),
                _ => {
                    let m = agentlib::shared_state::agent_status_wrapper::AgentStatusModule::KeyKeeper;
                    let _ = st.set_module_status_message(text.clone(), m.clone()).await;
                    let d = st.get_module_status(m).await;
                    assert!(d.message.len() <= 1024 + 3 && text.starts_with(d.message.trim_end_matches("...")), "REPLAY-MISMATCH status message");
                }
            }
            n += 1;
        }
    });
    done("truncation", n);
}

#[test]
fn replay_status_state() {
    let Some(cases) = corpus("status_state") else { return };
    let mut n = 0;
    for c in cases {
        let mut st = extlib::common::StatusState::new();
        let mut fail_run = 0u32;
        let mut prev_ok = false;
        for ch in s(&c, "seq").chars() {
            let ok = ch == '1';
            let out = st.update_state(ok);
            fail_run = if ok { 0 } else { fail_run + 1 };
            assert!(!(out == extlib::constants::ERROR_STATUS && fail_run < 20), "REPLAY-MISMATCH error before 20 failures");
            assert!(!(ok && prev_ok && out != extlib::constants::SUCCESS_STATUS), "REPLAY-MISMATCH two successes");
            prev_ok = ok;
        }
        n += 1;
    }
    done("status_state", n);
}

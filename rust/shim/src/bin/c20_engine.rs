// C20 engine: drives the real extension code (extlib) over enumerated / structured observation
// sequences and judges them with trace predicates taken from the statement. No argv (clap Lazy
// statics in the included sources); parameters come from the environment:
//   C20_MAXLEN   exhaustive depth for health observations (all 2^L sequences for L <= MAXLEN)
//   C20_OUT      output json path
//   C20_LOGDIR   scratch directory for the extension's logger (notification path)
use extlib::common::StatusState;
use extlib::service_main::service_state::ServiceState;
use serde_json::json;
use std::collections::HashSet;

const ERROR: &str = extlib::constants::ERROR_STATUS;
const SUCCESS: &str = extlib::constants::SUCCESS_STATUS;

#[derive(Clone, Copy, PartialEq, Debug)]
enum R {
    Transitioning,
    Success,
    Error,
}
/// 15-line reference automaton (informational: exact agreement is counted, not required)
struct Ref {
    st: R,
    fails: u64,
    succs: u64,
}
impl Ref {
    fn step(&mut self, ok: bool) -> R {
        if ok {
            self.fails = 0;
            self.succs += 1;
        } else {
            self.succs = 0;
            self.fails += 1;
        }
        self.st = match self.st {
            R::Success if !ok => R::Transitioning,
            R::Transitioning if ok => R::Success,
            R::Transitioning if self.fails >= 20 => R::Error,
            R::Error if ok => R::Transitioning,
            s => s,
        };
        self.st
    }
}

struct Stats {
    sequences: u64,
    observations: u64,
    reached_error: u64,
    distinct_nontrivial: HashSet<u64>,
    ref_disagreements: u64,
    violations: Vec<serde_json::Value>,
    samples: Vec<serde_json::Value>,
}

fn run_seq(bits: &dyn Fn(usize) -> bool, len: usize, label: &str, st: &mut Stats) {
    let mut s = StatusState::new();
    let mut rf = Ref { st: R::Transitioning, fails: 0, succs: 0 };
    let mut fail_run: u64 = 0; // consecutive failures ending at the current observation
    let mut prev_ok = false;
    let mut prev_out_error = false;
    let mut saw_error = false;
    let mut crossed = false;
    for i in 0..len {
        let ok = bits(i);
        let out = s.update_state(ok);
        let r = rf.step(ok);
        st.observations += 1;
        if ok {
            fail_run = 0;
        } else {
            fail_run += 1;
        }
        let is_err = out == ERROR;
        let mut bad: Option<&str> = None;
        if is_err && fail_run < 20 {
            bad = Some(if ok { "error-reported-directly-after-a-success" } else { "error-reported-before-20-consecutive-failures" });
        }
        if ok && prev_out_error && is_err {
            bad = Some("one-success-did-not-leave-error");
        }
        if i > 0 && ok && prev_ok && out != SUCCESS {
            bad = Some("two-consecutive-successes-did-not-yield-success");
        }
        if let Some(b) = bad {
            if st.violations.len() < 20 {
                let seq: String = (0..=i).map(|k| if bits(k) { '1' } else { '0' }).rev().take(64).collect::<String>().chars().rev().collect();
                st.violations.push(json!({"signature": b, "family": label, "at": i, "output": out, "fail_run": fail_run, "last_64_observations": seq}));
            }
        }
        let rs = match r { R::Error => ERROR, R::Success => SUCCESS, R::Transitioning => extlib::constants::TRANSITIONING_STATUS };
        if rs != out {
            st.ref_disagreements += 1;
        }
        if is_err {
            saw_error = true;
        }
        if fail_run == 19 || fail_run == 20 || fail_run == 21 {
            crossed = true;
        }
        prev_ok = ok;
        prev_out_error = is_err;
    }
    st.sequences += 1;
    if saw_error {
        st.reached_error += 1;
    }
    if saw_error || crossed {
        // distinct by content hash of the sequence (FNV over run-lengths)
        let mut h: u64 = 0xcbf29ce484222325;
        for i in 0..len {
            h ^= bits(i) as u64 + 1;
            h = h.wrapping_mul(0x100000001b3);
        }
        st.distinct_nontrivial.insert(h);
        if st.samples.len() < 3 {
            st.samples.push(json!({"family": label, "length": len, "reached_error": saw_error}));
        }
    }
}

fn notifications(logdir: &str, st: &mut Stats) -> serde_json::Value {
    let name = "c20.log";
    extlib::logger::init_logger(logdir.to_string(), name);
    let mut emitted_expected_checks = 0u64;
    let mut total = 0u64;
    let mut id = 0u64;
    // every sequence over 3 keys x 3 values of length <= LEN, plus long runs of identical notifications
    let mut plans: Vec<Vec<(u8, u8)>> = Vec::new();
    let alphabet: Vec<(u8, u8)> = (0..3).flat_map(|k| (0..3).map(move |v| (k, v))).collect();
    let maxlen = 4usize;
    let mut stack: Vec<Vec<(u8, u8)>> = vec![vec![]];
    while let Some(p) = stack.pop() {
        if !p.is_empty() {
            plans.push(p.clone());
        }
        if p.len() < maxlen {
            for a in &alphabet {
                let mut q = p.clone();
                q.push(*a);
                stack.push(q);
            }
        }
    }
    for run in [1usize, 2, 119, 120, 121, 122, 240, 241, 242, 500, 1000] {
        plans.push(vec![(0, 0); run]);
        let mut p = vec![(0, 0); run];
        p.push((0, 1));
        p.extend(vec![(0, 1); run]);
        p.push((1, 1));
        p.extend(vec![(0, 1); 3]);
        plans.push(p);
    }
    // emission = the production path wrote a log line (either the event's own text or, once the bounded
    // event queue is full, the "failed to push" warning): observed as growth of the log file after the call
    let log_path = std::path::Path::new(logdir).join(name);
    let size = |p: &std::path::Path| std::fs::metadata(p).map(|m| m.len()).unwrap_or(0);
    let mut all: Vec<(u64, usize, usize, (u8, u8))> = Vec::new(); // id, plan, pos, notification
    let mut emitted: HashSet<u64> = HashSet::new();
    for (pi, plan) in plans.iter().enumerate() {
        let mut state = ServiceState::default();
        for (pos, (k, v)) in plan.iter().enumerate() {
            id += 1;
            total += 1;
            let before = size(&log_path);
            extlib::service_main::verif_write_state_event(&format!("key{k}"), &format!("value{v}"), format!("NOTIF#{id}#"), name, &mut state);
            if size(&log_path) != before {
                emitted.insert(id);
            }
            all.push((id, pi, pos, (*k, *v)));
        }
    }
    // judge per plan with the statement's predicates
    let mut idx = 0usize;
    let mut emitted_total = 0u64;
    for (pi, plan) in plans.iter().enumerate() {
        let mut last_value: std::collections::HashMap<u8, u8> = std::collections::HashMap::new();
        let mut since_emit: std::collections::HashMap<u8, u64> = std::collections::HashMap::new();
        for (pos, (k, v)) in plan.iter().enumerate() {
            let (nid, _, _, _) = all[idx];
            idx += 1;
            let em = emitted.contains(&nid);
            if em {
                emitted_total += 1;
            }
            let changed = last_value.get(k) != Some(v);
            emitted_expected_checks += 1;
            let mut bad: Option<&str> = None;
            if changed && !em {
                bad = Some("notification-not-emitted-on-change");
            }
            if !changed {
                let c = since_emit.get(k).copied().unwrap_or(0) + 1;
                if em && c < 120 {
                    bad = Some("identical-notification-emitted-more-than-once-per-120-repetitions");
                }
                since_emit.insert(*k, if em { 0 } else { c });
            } else {
                since_emit.insert(*k, 0);
            }
            last_value.insert(*k, *v);
            if let Some(b) = bad {
                if st.violations.len() < 20 {
                    st.violations.push(json!({"signature": b, "plan": pi, "position": pos, "plan_length": plan.len(), "key": k, "value": v}));
                }
            }
        }
        if plan.len() >= 120 {
            st.distinct_nontrivial.insert(0xABCD_0000 + pi as u64);
        }
    }
    json!({"notification_sequences": plans.len(), "notifications": total, "emitted": emitted_total, "judged": emitted_expected_checks})
}

fn main() {
    let maxlen: usize = std::env::var("C20_MAXLEN").ok().and_then(|x| x.parse().ok()).unwrap_or(16);
    let out = std::env::var("C20_OUT").expect("C20_OUT");
    let logdir = std::env::var("C20_LOGDIR").expect("C20_LOGDIR");
    let mut st = Stats { sequences: 0, observations: 0, reached_error: 0, distinct_nontrivial: HashSet::new(), ref_disagreements: 0, violations: vec![], samples: vec![] };
    // 1. exhaustive: all 2^L sequences for L <= maxlen
    for len in 1..=maxlen {
        for code in 0u64..(1u64 << len) {
            run_seq(&|i| (code >> i) & 1 == 1, len, "exhaustive", &mut st);
        }
    }
    let exhaustive_sequences = st.sequences;
    // 2. (any 7 bits) fail^n (any 7 bits), n around the threshold
    for n in 15usize..=26 {
        for pre in 0u64..128 {
            for suf in 0u64..128 {
                run_seq(&|i| if i < 7 { (pre >> i) & 1 == 1 } else if i < 7 + n { false } else { (suf >> (i - 7 - n)) & 1 == 1 }, 7 + n + 7, "prefix-failrun-suffix", &mut st);
            }
        }
    }
    // 3. long runs through the saturation point followed by every suffix of length <= 8
    for n in [9_990usize, 9_999, 10_000, 10_001, 10_050, 20_001] {
        for first_ok in [false, true] {
            for slen in 0..=8usize {
                for suf in 0u64..(1u64 << slen) {
                    if slen > 4 && suf % 7 != 0 && n != 10_000 {
                        continue;
                    }
                    run_seq(&|i| if i < n { first_ok } else { (suf >> (i - n)) & 1 == 1 }, n + slen, "saturation-run-suffix", &mut st);
                }
            }
        }
    }
    let notif = notifications(&logdir, &mut st);
    let res = json!({
        "exhaustive_depth": maxlen, "exhaustive_sequences": exhaustive_sequences,
        "sequences": st.sequences, "observations": st.observations, "sequences_reaching_error": st.reached_error,
        "distinct_nontrivial": st.distinct_nontrivial.len(), "reference_automaton_disagreements": st.ref_disagreements,
        "notifications": notif, "violations": st.violations, "samples": st.samples,
    });
    std::fs::write(out, serde_json::to_string(&res).unwrap()).unwrap();
}

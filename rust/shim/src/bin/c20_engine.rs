// C20 engine: drives the real extension code (extlib) over enumerated / structured observation
// sequences and judges them with trace predicates taken from the statement. No argv (clap Lazy
// statics in the included sources); parameters come from the environment:
//   C20_MAXLEN   exhaustive depth for health observations (all 2^L sequences for L <= MAXLEN)
//   C20_OUT      output json path
//   C20_LOGDIR   scratch directory for the extension's logger (notification path)
use extlib::common::StatusState;
use extlib::service_main::service_state::ServiceState;
use serde_json::json;
use std::collections::HashSet;

const ERROR: &str = extlib::constants::ERROR_STATUS;
const SUCCESS: &str = extlib::constants::SUCCESS_STATUS;

#[derive(Clone, Copy, PartialEq, Debug)]
enum R {
    Transitioning,
    Success,
    Error,
}
/// 15-line reference automaton (informational: exact agreement is counted, not required)
struct Ref {
    st: R,
    fails: u64,
    succs: u64,
}
impl Ref {
    fn step(&mut self, ok: bool) -> R {
        if ok {
            self.fails = 0;
            self.succs += 1;
        } else {
            self.succs = 0;
            self.fails += 1;
        }
        self.st = match self.st {
            R::Success if !ok => R::Transitioning,
            R::Transitioning if ok => R::Success,
            R::Transitioning if self.fails >= 20 => R::Error,
            R::Error if ok => R::Transitioning,
            s => s,
        };
        self.st
    }
}

struct Stats {
    sequences: u64,
    observations: u64,
    reached_error: u64,
    distinct_nontrivial: HashSet<u64>,
    ref_disagreements: u64,
    violations: Vec<serde_json::Value>,
    samples: Vec<serde_json::Value>,
}

fn run_seq(bits: &dyn Fn(usize) -> bool, len: usize, label: &str, st: &mut Stats) {
    let mut s = StatusState::new();
    let mut rf = Ref { st: R::Transitioning, fails: 0, succs: 0 };
    let mut fail_run: u64 = 0; // consecutive failures ending at the current observation
    let mut prev_ok = false;
    let mut prev_out_error = false;
    let mut saw_error = false;
    let mut crossed = false;
    for i in 0..len {
        let ok = bits(i);
        let out = s.update_state(ok);
        let r = rf.step(ok);
        st.observations += 1;
        if ok {
            fail_run = 0;
        } else {
            fail_run += 1;
        }
        let is_err = out == ERROR;
        let mut bad: Option<&str> = None;
        if is_err && fail_run < 20 {
            bad = Some(if ok { "error-reported-directly-after-a-success" } else { "error-reported-before-20-consecutive-failures" });
        }
        if ok && prev_out_error && is_err {
            bad = Some("one-success-did-not-leave-error");
        }
        if i > 0 && ok && prev_ok && out != SUCCESS {
            bad = Some("two-consecutive-successes-did-not-yield-success");
        }
        if let Some(b) = bad {
            if st.violations.len() < 20 {
                let seq: String = (0..=i).map(|k| if bits(k) { '1' } else { '0' }).rev().take(64).collect::<String>().chars().rev().collect();
                st.violations.push(json!({"signature": b, "family": label, "at": i, "output": out, "fail_run": fail_run, "last_64_observations": seq}));
            }
        }
        let rs = match r { R::Error => ERROR, R::Success => SUCCESS, R::Transitioning => extlib::constants::TRANSITIONING_STATUS };
        if rs != out {
            st.ref_disagreements += 1;
        }
        if is_err {
            saw_error = true;
        }
        if fail_run == 19 || fail_run == 20 || fail_run == 21 {
            crossed = true;
        }
        prev_ok = ok;
        prev_out_error = is_err;
    }
    st.sequences += 1;
    if saw_error {
        st.reached_error += 1;
    }
    if saw_error || crossed {
        // distinct by content hash of the sequence (FNV over run-lengths)
        let mut h: u64 = 0xcbf29ce484222325;
        for i in 0..len {
            h ^= bits(i) as u64 + 1;
            h = h.wrapping_mul(0x100000001b3);
        }
        st.distinct_nontrivial.insert(h);
        if st.samples.len() < 3 {
            st.samples.push(json!({"family": label, "length": len, "reached_error": saw_error}));
        }
    }
}

fn notifications(logdir: &str, st: &mut Stats) -> serde_json::Value {
    let name = "c20.log";
    extlib::logger::init_logger(logdir.to_string(), name);
    let mut emitted_expected_checks = 0u64;
    let mut total = 0u64;
    let mut id = 0u64;
    // every sequence over 3 keys x 3 values of length <= LEN, plus long runs of identical notifications
    let mut plans: Vec<Vec<(u8, u8)>> = Vec::new();
    let alphabet: Vec<(u8, u8)> = (0..3).flat_map(|k| (0..3).map(move |v| (k, v))).collect();
    let maxlen = 4usize;
    let mut stack: Vec<Vec<(u8, u8)>> = vec![vec![]];
    while let Some(p) = stack.pop() {
        if !p.is_empty() {
            plans.push(p.clone());
        }
        if p.len() < maxlen {
            for a in &alphabet {
                let mut q = p.clone();
                q.push(*a);
                stack.push(q);
            }
        }
    }
    for run in [1usize, 2, 119, 120, 121, 122, 240, 241, 242, 500, 1000] {
        plans.push(vec![(0, 0); run]);
        let mut p = vec![(0, 0); run];
        p.push((0, 1));
        p.extend(vec![(0, 1); run]);
        p.push((1, 1));
        p.extend(vec![(0, 1); 3]);
        plans.push(p);
    }
    // emission = the production path wrote a log line (either the event's own text or, once the bounded
    // event queue is full, the "failed to push" warning): observed as growth of the log file after the call
    let log_path = std::path::Path::new(logdir).join(name);
    let size = |p: &std::path::Path| std::fs::metadata(p).map(|m| m.len()).unwrap_or(0);
    let mut all: Vec<(u64, usize, usize, (u8, u8))> = Vec::new(); // id, plan, pos, notification
    let mut emitted: HashSet<u64> = HashSet::new();
    for (pi, plan) in plans.iter().enumerate() {
        let mut state = ServiceState::default();
        for (pos, (k, v)) in plan.iter().enumerate() {
            id += 1;
            total += 1;
            let before = size(&log_path);
            extlib::service_main::verif_write_state_event(&format!("key{k}"), &format!("value{v}"), format!("NOTIF#{id}#"), name, &mut state);
            if size(&log_path) != before {
                emitted.insert(id);
            }
            all.push((id, pi, pos, (*k, *v)));
        }
    }
    // judge per plan with the statement's predicates
    let mut idx = 0usize;
    let mut emitted_total = 0u64;
    for (pi, plan) in plans.iter().enumerate() {
        let mut last_value: std::collections::HashMap<u8, u8> = std::collections::HashMap::new();
        let mut since_emit: std::collections::HashMap<u8, u64> = std::collections::HashMap::new();
        for (pos, (k, v)) in plan.iter().enumerate() {
            let (nid, _, _, _) = all[idx];
            idx += 1;
            let em = emitted.contains(&nid);
            if em {
                emitted_total += 1;
            }
            let changed = last_value.get(k) != Some(v);
            emitted_expected_checks += 1;
            let mut bad: Option<&str> = None;
            if changed && !em {
                bad = Some("notification-not-emitted-on-change");
            }
            if !changed {
                let c = since_emit.get(k).copied().unwrap_or(0) + 1;
                if em && c < 120 {
                    bad = Some("identical-notification-emitted-more-than-once-per-120-repetitions");
                }
                since_emit.insert(*k, if em { 0 } else { c });
            } else {
                since_emit.insert(*k, 0);
            }
            last_value.insert(*k, *v);
            if let Some(b) = bad {
                if st.violations.len() < 20 {
                    st.violations.push(json!({"signature": b, "plan": pi, "position": pos, "plan_length": plan.len(), "key": k, "value": v}));
                }
            }
        }
        if plan.len() >= 120 {
            st.distinct_nontrivial.insert(0xABCD_0000 + pi as u64);
        }
    }
    json!({"notification_sequences": plans.len(), "notifications": total, "emitted": emitted_total, "judged": emitted_expected_checks})
}

// ---- monitor layer: the functions that turn an observation into the REPORTED status and into notifications
// (report_proxy_agent_aggregate_status / extension_substatus / report_proxy_agent_service_status), driven with the
// aggregate status file in its production location. Needs a private /var/log (run inside the sandbox).
#[derive(Clone, Copy, PartialEq, Debug)]
enum Ev {
    PollOk,       // status file readable, version matches            -> successful observation
    PollMissing,  // status file absent                                -> failed observation
    PollCorrupt,  // status file unparsable                            -> failed observation
    PollMismatch, // status file readable, other version               -> failed observation
    UpdOk,        // install command ran and succeeded                 -> reported as a failed observation (agent restarting)
    UpdFail,      // install command ran and exited non-zero           -> failed observation
    UpdSpawn,     // install command could not be launched             -> failed observation
}
const EVS: [Ev; 7] = [Ev::PollOk, Ev::PollMissing, Ev::PollCorrupt, Ev::PollMismatch, Ev::UpdOk, Ev::UpdFail, Ev::UpdSpawn];

fn status_doc(version: &str) -> String {
    let detail = json!({"status": "RUNNING", "message": "ok"});
    // healthy documents come in runs of three, alternately those of a busy and of an idle agent: no connections yet, empty summaries
    static N: std::sync::atomic::AtomicUsize = std::sync::atomic::AtomicUsize::new(0);
    if (N.fetch_add(1, std::sync::atomic::Ordering::Relaxed) / 3) % 2 == 1 {
        return json!({
            "timestamp": "2024-01-01T00:00:00Z",
            "proxyAgentStatus": {"version": version, "status": "SUCCESS", "monitorStatus": detail, "keyLatchStatus": detail, "ebpfProgramStatus": detail,
                "proxyListenerStatus": detail, "telemetryLoggerStatus": detail, "proxyConnectionsCount": 0},
            "proxyConnectionSummary": [],
            "failedAuthenticateSummary": []
        })
        .to_string();
    }
    json!({
        "timestamp": "2024-01-01T00:00:00Z",
        "proxyAgentStatus": {"version": version, "status": "SUCCESS", "monitorStatus": detail, "keyLatchStatus": detail, "ebpfProgramStatus": detail,
            "proxyListenerStatus": detail, "telemetryLoggerStatus": detail, "proxyConnectionsCount": 1},
        "proxyConnectionSummary": [{"userName": "c20user", "ip": "168.63.129.16", "port": 80, "processCmdLine": "c20 cmd", "responseStatus": "200 OK", "count": 1}],
        "failedAuthenticateSummary": []
    })
    .to_string()
}

fn monitor_layer(logdir: &str, st: &mut Stats) -> serde_json::Value {
    let status_path = std::path::Path::new(proxy_agent_shared::proxy_agent_aggregate_status::PROXY_AGENT_AGGREGATE_STATUS_FOLDER)
        .join(proxy_agent_shared::proxy_agent_aggregate_status::PROXY_AGENT_AGGREGATE_STATUS_FILE_NAME);
    std::fs::create_dir_all(status_path.parent().unwrap()).expect("private /var/log expected");
    // drain the bounded event queue the way the extension does (real event logger, short interval)
    let evdir = std::path::Path::new(logdir).join("events");
    {
        let evdir = evdir.clone();
        std::thread::spawn(move || {
            let rt = tokio::runtime::Builder::new_current_thread().enable_all().build().unwrap();
            rt.block_on(proxy_agent_shared::telemetry::event_logger::start(evdir, std::time::Duration::from_millis(2), 5, |_s: String| async {}));
        });
    }
    let log_path = std::path::Path::new(logdir).join("c20.log");
    let status_folder = std::path::Path::new(logdir).join("status");
    std::fs::create_dir_all(&status_folder).unwrap();
    const VERSION: &str = "9.9.9-c20";
    // plans: every sequence of length <= 4; failure runs around the threshold with mixed failure kinds; long identical runs
    let mut plans: Vec<Vec<Ev>> = Vec::new();
    let mut stack: Vec<Vec<Ev>> = vec![vec![]];
    while let Some(p) = stack.pop() {
        if !p.is_empty() {
            plans.push(p.clone());
        }
        if p.len() < 4 {
            for e in EVS {
                let mut q = p.clone();
                q.push(e);
                stack.push(q);
            }
        }
    }
    let exhaustive = plans.len();
    let fails = [Ev::PollMissing, Ev::PollCorrupt, Ev::PollMismatch, Ev::UpdOk, Ev::UpdFail, Ev::UpdSpawn];
    let mut x: u64 = 0x9E3779B97F4A7C15;
    let mut rnd = move |n: usize| {
        x ^= x << 13;
        x ^= x >> 7;
        x ^= x << 17;
        (x % n as u64) as usize
    };
    for n in 17usize..=23 {
        for variant in 0..12 {
            let mut p = vec![Ev::PollOk; variant % 3];
            for _ in 0..n {
                p.push(if variant < 6 { fails[variant] } else { fails[rnd(6)] });
            }
            p.push(if variant % 2 == 0 { Ev::PollOk } else { fails[rnd(6)] });
            p.push(Ev::PollOk);
            p.push(fails[rnd(6)]);
            plans.push(p);
        }
    }
    for run in [2usize, 10, 119, 120, 121, 122, 241, 300] {
        for e in [Ev::PollOk, Ev::PollMismatch, Ev::PollMissing] {
            let mut p = vec![e; run];
            p.push(Ev::PollOk);
            p.push(Ev::PollMismatch);
            p.push(Ev::PollMismatch);
            plans.push(p);
        }
        // alternation of two readable states: the read subject never changes, the version subject changes every poll
        let p: Vec<Ev> = (0..run).map(|i| if i % 2 == 0 { Ev::PollOk } else { Ev::PollMismatch }).collect();
        plans.push(p);
    }
    let mut offset: u64 = std::fs::metadata(&log_path).map(|m| m.len()).unwrap_or(0);
    let read_new = |offset: &mut u64| -> String {
        use std::io::{Read, Seek, SeekFrom};
        let len = std::fs::metadata(&log_path).map(|m| m.len()).unwrap_or(0);
        if len < *offset {
            *offset = 0; // the log rolled
        }
        let mut out = String::new();
        if let Ok(mut f) = std::fs::File::open(&log_path) {
            let _ = f.seek(SeekFrom::Start(*offset));
            let mut buf = Vec::new();
            let _ = f.read_to_end(&mut buf);
            *offset += buf.len() as u64;
            out = String::from_utf8_lossy(&buf).to_string();
        }
        out
    };
    let mut events_total = 0u64;
    let mut reached_error = 0u64;
    let mut notif_judged = 0u64;
    let mut notif_emitted = 0u64;
    let mut push_failures = 0u64;
    for (pi, plan) in plans.iter().enumerate() {
        let mut m = extlib::service_main::verif_monitor_new(VERSION);
        let seq_no = format!("{}", pi);
        let mut fail_run = 0u64;
        let mut prev_ok_obs = false;
        let mut prev_reported_error = false;
        let mut saw_error = false;
        // notification subjects: 0 = "the status file can be read", 1 = "its version matches"
        let mut last_value: [Option<bool>; 2] = [None, None];
        let mut since_emit: [u64; 2] = [0, 0];
        for (pos, ev) in plan.iter().enumerate() {
            events_total += 1;
            let reported = match ev {
                Ev::PollOk | Ev::PollMismatch | Ev::PollMissing | Ev::PollCorrupt => {
                    match ev {
                        Ev::PollOk => std::fs::write(&status_path, status_doc(VERSION)).unwrap(),
                        Ev::PollMismatch => std::fs::write(&status_path, status_doc("1.0.0-other")).unwrap(),
                        Ev::PollCorrupt => std::fs::write(&status_path, "{\"timestamp\": ").unwrap(),
                        _ => {
                            let _ = std::fs::remove_file(&status_path);
                        }
                    }
                    extlib::service_main::verif_monitor_poll(&mut m, status_folder.clone(), &seq_no)
                }
                Ev::UpdOk => extlib::service_main::verif_monitor_update_report(&mut m, std::process::Command::new("true").output(), status_folder.clone(), &seq_no),
                Ev::UpdFail => extlib::service_main::verif_monitor_update_report(&mut m, std::process::Command::new("false").output(), status_folder.clone(), &seq_no),
                Ev::UpdSpawn => extlib::service_main::verif_monitor_update_report(&mut m, std::process::Command::new("/nonexistent/proxy_agent_setup").output(), status_folder.clone(), &seq_no),
            };
            // what the platform reads: the status file written for this sequence number
            let on_disk = std::fs::read_to_string(status_folder.join(format!("{}.status", seq_no)))
                .ok()
                .and_then(|t| serde_json::from_str::<serde_json::Value>(&t).ok())
                .and_then(|v| v[0]["status"]["status"].as_str().map(|x| x.to_string()))
                .unwrap_or_default();
            let ok_obs = *ev == Ev::PollOk;
            if ok_obs {
                fail_run = 0;
            } else {
                fail_run += 1;
            }
            let mut bad: Option<String> = None;
            if on_disk != reported {
                bad = Some("monitor:status-file-differs-from-computed-status".to_string());
            }
            let is_err = on_disk == ERROR || reported == ERROR;
            if is_err && fail_run < 20 {
                bad = Some(if ok_obs { "monitor:error-reported-directly-after-a-success" } else { "monitor:error-reported-before-20-consecutive-failures" }.to_string());
            }
            if ok_obs && prev_reported_error && is_err {
                bad = Some("monitor:one-success-did-not-leave-error".to_string());
            }
            if pos > 0 && ok_obs && prev_ok_obs && reported != SUCCESS {
                bad = Some("monitor:two-consecutive-successes-did-not-yield-success".to_string());
            }
            // notifications emitted during this event, classified by subject through their text
            let text = read_new(&mut offset);
            push_failures += text.matches("Failed to push event").count() as u64;
            let emitted = [
                text.matches("Successfully read proxy agent aggregate status file").count() + text.matches("Error in reading proxy agent aggregate status file").count(),
                // a healthy document of an idle agent: the extension logs "proxy connection summary is empty" once per observation by itself;
                // the notification (whose message is that same text) is one more occurrence
                text.matches("does not match proxy agent file version in extension").count() + text.matches("c20user").count()
                    + text.matches("proxy connection summary is empty").count().saturating_sub(1),
            ];
            let value: [Option<bool>; 2] = match ev {
                Ev::PollOk => [Some(true), Some(true)],
                Ev::PollMismatch => [Some(true), Some(false)],
                Ev::PollMissing | Ev::PollCorrupt => [Some(false), None],
                _ => [None, None],
            };
            for subj in 0..2 {
                let Some(v) = value[subj] else {
                    if emitted[subj] > 0 {
                        bad = Some("monitor:notification-about-a-subject-that-was-not-observed".to_string());
                    }
                    continue;
                };
                notif_judged += 1;
                notif_emitted += emitted[subj] as u64;
                let changed = last_value[subj] != Some(v);
                if emitted[subj] > 1 {
                    bad = Some("monitor:identical-notification-emitted-more-than-once-per-120-repetitions".to_string());
                }
                if changed {
                    if emitted[subj] == 0 {
                        bad = Some("monitor:notification-not-emitted-on-change".to_string());
                    }
                    since_emit[subj] = 0;
                } else {
                    let c = since_emit[subj] + 1;
                    if emitted[subj] > 0 && c < 120 {
                        bad = Some("monitor:identical-notification-emitted-more-than-once-per-120-repetitions".to_string());
                    }
                    since_emit[subj] = if emitted[subj] > 0 { 0 } else { c };
                }
                last_value[subj] = Some(v);
            }
            if let Some(b) = bad {
                if st.violations.len() < 20 {
                    let tail: Vec<String> = plan[..=pos].iter().rev().take(30).rev().map(|e| format!("{:?}", e)).collect();
                    st.violations.push(json!({"signature": b, "layer": "monitor", "plan": pi, "position": pos, "event": format!("{:?}", ev), "reported": reported, "status_file": on_disk,
                        "consecutive_failed_observations": fail_run, "last_events": tail, "notifications_emitted_by_subject": emitted}));
                }
            }
            if is_err {
                saw_error = true;
            }
            prev_ok_obs = ok_obs;
            prev_reported_error = is_err;
        }
        if saw_error {
            reached_error += 1;
        }
        if saw_error || plan.len() >= 120 || (plan.len() >= 3 && plan.iter().any(|e| matches!(e, Ev::UpdSpawn | Ev::PollMismatch))) {
            let mut h: u64 = 0xcbf29ce484222325 ^ 0x77;
            for e in plan {
                h ^= *e as u64 + 1;
                h = h.wrapping_mul(0x100000001b3);
            }
            st.distinct_nontrivial.insert(h);
        }
    }
    proxy_agent_shared::telemetry::event_logger::stop();
    json!({"plans": plans.len(), "exhaustive_plans_up_to_length_4": exhaustive, "events": events_total, "plans_reaching_error": reached_error,
        "notification_checks": notif_judged, "notifications_emitted": notif_emitted, "event_queue_push_failures": push_failures})
}

// ---- loop layer: the REAL service_main::run() (monitor loop + heartbeat) on a paused tokio clock. The monitor iterates every 15 s of
// virtual time (iteration k at t = 15k); a driver task on the same runtime wakes at t = 15k + 7, reads the status file the platform would
// read for the current sequence number, and prepares the observation of iteration k+1. Everything the loop needs lives next to this
// executable (HandlerEnvironment.json, current_seq_no.txt, ProxyAgent/...) - prepared by the python worker - and in /var/log, /usr/sbin.
// C20_PLAN: comma separated steps: o = status file ok, m = missing, c = corrupt, v = version mismatch, and "+<step>" = a new sequence
// number is enabled first (current_seq_no.txt bumped and <seq>.status written as "transitioning", as the enable handler does).
fn loop_layer(out: &str) {
    let plan: Vec<String> = std::env::var("C20_PLAN").expect("C20_PLAN").split(',').map(|x| x.to_string()).collect();
    let exe_dir = std::env::current_exe().unwrap().parent().unwrap().to_path_buf();
    let status_dir = exe_dir.join("status");
    let agg = std::path::Path::new(proxy_agent_shared::proxy_agent_aggregate_status::PROXY_AGENT_AGGREGATE_STATUS_FOLDER)
        .join(proxy_agent_shared::proxy_agent_aggregate_status::PROXY_AGENT_AGGREGATE_STATUS_FILE_NAME);
    std::fs::create_dir_all(agg.parent().unwrap()).unwrap();
    let version = std::env::var("C20_VERSION").unwrap_or_else(|_| "9.9.9-c20".to_string());
    let set_obs = |step: &str| match step {
        "o" => std::fs::write(&agg, status_doc(&version)).unwrap(),
        "v" => std::fs::write(&agg, status_doc("1.0.0-other")).unwrap(),
        "c" => std::fs::write(&agg, "{\"timestamp\": ").unwrap(),
        _ => {
            let _ = std::fs::remove_file(&agg);
        }
    };
    let read_status = |seq: u32| -> String {
        std::fs::read_to_string(status_dir.join(format!("{}.status", seq)))
            .ok()
            .and_then(|t| serde_json::from_str::<serde_json::Value>(&t).ok())
            .and_then(|v| v[0]["status"]["status"].as_str().map(|x| x.to_string()))
            .unwrap_or_else(|| "<no status file>".to_string())
    };
    let enable = |seq: u32| {
        std::fs::write(exe_dir.join("current_seq_no.txt"), format!("{}", seq)).unwrap();
        extlib::common::report_status_enable_command(status_dir.clone(), &format!("{}", seq), None);
    };
    extlib::logger::init_logger(exe_dir.join("log").to_string_lossy().to_string(), "c20loop.log");
    let rt = tokio::runtime::Builder::new_current_thread().enable_all().start_paused(true).build().unwrap();
    let mut rows: Vec<serde_json::Value> = Vec::new();
    rt.block_on(async {
        let mut seq = 0u32;
        enable(seq);
        let first = plan[0].trim_start_matches('+').to_string();
        set_obs(&first);
        extlib::service_main::run();
        tokio::time::sleep(std::time::Duration::from_secs(7)).await;
        for (k, step) in plan.iter().enumerate() {
            let obs = step.trim_start_matches('+');
            rows.push(json!({"iteration": k, "observation": obs, "sequence_number": seq, "status_file": read_status(seq)}));
            if let Some(next) = plan.get(k + 1) {
                if next.starts_with('+') {
                    seq += 1;
                    enable(seq);
                }
                set_obs(next.trim_start_matches('+'));
            }
            tokio::time::sleep(std::time::Duration::from_secs(15)).await;
        }
    });
    std::fs::write(out, serde_json::to_string(&json!({"rows": rows})).unwrap()).unwrap();
    std::process::exit(0); // the monitor loop never ends
}

fn main() {
    if std::env::var("C20_MODE").as_deref() == Ok("loop") {
        loop_layer(&std::env::var("C20_OUT").expect("C20_OUT"));
        return;
    }
    let maxlen: usize = std::env::var("C20_MAXLEN").ok().and_then(|x| x.parse().ok()).unwrap_or(16);
    let out = std::env::var("C20_OUT").expect("C20_OUT");
    let logdir = std::env::var("C20_LOGDIR").expect("C20_LOGDIR");
    if std::env::var("C20_MODE").as_deref() == Ok("monitor") {
        // the logger is process-wide: initialise it as notifications() would
        extlib::logger::init_logger(logdir.to_string(), "c20.log");
        let mut st = Stats { sequences: 0, observations: 0, reached_error: 0, distinct_nontrivial: HashSet::new(), ref_disagreements: 0, violations: vec![], samples: vec![] };
        let mon = monitor_layer(&logdir, &mut st);
        let res = json!({"monitor": mon, "distinct_nontrivial": st.distinct_nontrivial.len(), "violations": st.violations});
        std::fs::write(out, serde_json::to_string(&res).unwrap()).unwrap();
        return;
    }
    let mut st = Stats { sequences: 0, observations: 0, reached_error: 0, distinct_nontrivial: HashSet::new(), ref_disagreements: 0, violations: vec![], samples: vec![] };
    // 1. exhaustive: all 2^L sequences for L <= maxlen
    for len in 1..=maxlen {
        for code in 0u64..(1u64 << len) {
            run_seq(&|i| (code >> i) & 1 == 1, len, "exhaustive", &mut st);
        }
    }
    let exhaustive_sequences = st.sequences;
    // 2. (any 7 bits) fail^n (any 7 bits), n around the threshold
    for n in 15usize..=26 {
        for pre in 0u64..128 {
            for suf in 0u64..128 {
                run_seq(&|i| if i < 7 { (pre >> i) & 1 == 1 } else if i < 7 + n { false } else { (suf >> (i - 7 - n)) & 1 == 1 }, 7 + n + 7, "prefix-failrun-suffix", &mut st);
            }
        }
    }
    // 3. long runs through the saturation point followed by every suffix of length <= 8
    for n in [9_990usize, 9_999, 10_000, 10_001, 10_050, 20_001] {
        for first_ok in [false, true] {
            for slen in 0..=8usize {
                for suf in 0u64..(1u64 << slen) {
                    if slen > 4 && suf % 7 != 0 && n != 10_000 {
                        continue;
                    }
                    run_seq(&|i| if i < n { first_ok } else { (suf >> (i - n)) & 1 == 1 }, n + slen, "saturation-run-suffix", &mut st);
                }
            }
        }
    }
    let notif = notifications(&logdir, &mut st);
    let res = json!({
        "exhaustive_depth": maxlen, "exhaustive_sequences": exhaustive_sequences,
        "sequences": st.sequences, "observations": st.observations, "sequences_reaching_error": st.reached_error,
        "distinct_nontrivial": st.distinct_nontrivial.len(), "reference_automaton_disagreements": st.ref_disagreements,
        "notifications": notif, "violations": st.violations, "samples": st.samples,
    });
    std::fs::write(out, serde_json::to_string(&res).unwrap()).unwrap();
}

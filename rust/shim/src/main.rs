// gpa-shim: thin JSON-lines RPC over the real agent sources (agentlib) and extension sources
// (extlib). It exposes operations, never verdicts. It takes NO argv (the agent's clap `CLI`
// Lazy would exit on unknown arguments); everything comes from the environment:
//   GPA_SHIM_SOCK     unix socket path to connect to (RPC channel; stdout/stderr stay free for
//                     the agent's own console output, which C12 scans)
//   GPA_SHIM_RUNTIME  "multi:N" (default multi:4) | "current" | "paused" (current-thread, clock paused)
//   GPA_VERIF_DIR     kernel-map stand-in directory (hook H1)
use agentlib::common::{helpers, hyper_client};
use agentlib::key_keeper::key::{AuthorizationItem, Key};
use agentlib::key_keeper::KeyKeeper;
use agentlib::provision;
use agentlib::proxy::authorization_rules::{
    AuthorizationRulesForLogging, ComputedAuthorizationItem, ComputedAuthorizationRules,
};
use agentlib::proxy::proxy_authorizer::{self, AuthorizeResult};
use agentlib::proxy::proxy_connection::ConnectionLogger;
use agentlib::proxy::proxy_server::ProxyServer;
use agentlib::proxy::Claims;
use agentlib::proxy_agent_status::ProxyAgentStatusTask;
use agentlib::shared_state::agent_status_wrapper::AgentStatusModule;
use agentlib::shared_state::SharedState;
use agentlib::telemetry::event_reader::EventReader;
use proxy_agent_shared::logger::rolling_logger::RollingLogger;
use proxy_agent_shared::logger::{logger_manager, LoggerLevel};
use proxy_agent_shared::telemetry::event_logger;
use serde_json::{json, Value};
use std::collections::HashMap;
use std::ffi::OsString;
use std::os::unix::ffi::OsStringExt;
use std::path::PathBuf;
use std::str::FromStr;
use std::sync::{Arc, Mutex, OnceLock};
use std::time::Duration;
use tokio::io::{AsyncBufReadExt, AsyncWriteExt, BufReader};

static PANICS: OnceLock<Mutex<Vec<Value>>> = OnceLock::new();
static SHARED: OnceLock<SharedState> = OnceLock::new();
static LOGGERS: OnceLock<Mutex<HashMap<String, Arc<RollingLogger>>>> = OnceLock::new();
static BPF: OnceLock<Arc<std::sync::Mutex<agentlib::redirector::BpfObject>>> = OnceLock::new();
static BPF_MAP_IDS: OnceLock<HashMap<String, u32>> = OnceLock::new();
static EXT_STATES: OnceLock<Mutex<HashMap<String, extlib::service_main::service_state::ServiceState>>> =
    OnceLock::new();

fn mono_ns() -> u128 {
    let mut ts = libc_timespec();
    unsafe { clock_gettime(1, &mut ts) };
    ts.0 as u128 * 1_000_000_000 + ts.1 as u128
}
#[repr(C)]
struct Timespec(i64, i64);
fn libc_timespec() -> Timespec {
    Timespec(0, 0)
}
extern "C" {
    fn clock_gettime(clk: i32, ts: *mut Timespec) -> i32;
}

fn shared() -> &'static SharedState {
    SHARED.get().expect("init not called")
}

fn s(v: &Value, k: &str) -> String {
    v.get(k).and_then(|x| x.as_str()).unwrap_or("").to_string()
}
fn u(v: &Value, k: &str, d: u64) -> u64 {
    v.get(k).and_then(|x| x.as_u64()).unwrap_or(d)
}
fn b(v: &Value, k: &str) -> bool {
    v.get(k).and_then(|x| x.as_bool()).unwrap_or(false)
}

fn claims_from(v: &Value) -> Claims {
    let pname = match v.get("processNameHex").and_then(|x| x.as_str()) {
        Some(h) => OsString::from_vec(hex::decode(h).unwrap_or_default()),
        None => OsString::from(s(v, "processName")),
    };
    Claims {
        userId: u(v, "userId", 0),
        userName: s(v, "userName"),
        userGroups: v
            .get("userGroups")
            .and_then(|g| g.as_array())
            .map(|a| {
                a.iter()
                    .map(|x| x.as_str().unwrap_or("").to_string())
                    .collect()
            })
            .unwrap_or_default(),
        processId: u(v, "processId", 0) as u32,
        processName: pname,
        processFullPath: PathBuf::from(s(v, "processFullPath")),
        processCmdLine: s(v, "processCmdLine"),
        runAsElevated: b(v, "runAsElevated"),
        clientIp: "127.0.0.1".to_string(),
        clientPort: u(v, "clientPort", 0) as u16,
    }
}

fn item_from(v: &Value) -> Result<Option<AuthorizationItem>, String> {
    if v.is_null() {
        return Ok(None);
    }
    // production route: the document arrives as JSON text
    let text = serde_json::to_string(v).map_err(|e| e.to_string())?;
    serde_json::from_str::<AuthorizationItem>(&text)
        .map(Some)
        .map_err(|e| format!("deserialize AuthorizationItem: {e}"))
}

fn module_from(name: &str) -> AgentStatusModule {
    match name {
        "KeyKeeper" => AgentStatusModule::KeyKeeper,
        "TelemetryReader" => AgentStatusModule::TelemetryReader,
        "TelemetryLogger" => AgentStatusModule::TelemetryLogger,
        "Redirector" => AgentStatusModule::Redirector,
        "ProxyServer" => AgentStatusModule::ProxyServer,
        _ => AgentStatusModule::ProxyAgentStatus,
    }
}

/// production route: document -> set_imds_rules -> get_imds_rules -> is_allowed
/// (route "keystatus": the document first travels inside a status document: KeyStatus deserialisation -> get_imds_rules())
async fn rbac_state_one(case: &Value) -> Value {
    let item = if s(case, "route") == "keystatus" {
        let doc = json!({"authorizationScheme": "Azure-HMAC-SHA256", "keyDeliveryMethod": "http", "keyGuid": Value::Null,
            "requiredClaimsHeaderPairs": Value::Null, "secureChannelEnabled": true, "version": "2.0",
            "authorizationRules": {"imds": case["item"].clone()}});
        let text = serde_json::to_string(&doc).unwrap_or_default();
        match serde_json::from_str::<agentlib::key_keeper::key::KeyStatus>(&text) {
            Ok(st) => match st.get_imds_rules() {
                Some(i) => i,
                None => return json!({"err": "status document lost the rules"}),
            },
            Err(e) => return json!({"err": format!("deserialize KeyStatus: {e}")}),
        }
    } else {
        match item_from(&case["item"]) {
            Ok(Some(i)) => i,
            Ok(None) => return json!({"err": "null item"}),
            Err(e) => return json!({"err": e}),
        }
    };
    let url = match hyper::Uri::from_str(&s(case, "url")) {
        Ok(u) => u,
        Err(e) => return json!({"err": format!("uri: {e}")}),
    };
    let claims = claims_from(&case["claims"]);
    let kk = shared().get_key_keeper_shared_state();
    if let Err(e) = kk.set_imds_rules(Some(item)).await {
        return json!({"err": e.to_string()});
    }
    let computed = match kk.get_imds_rules().await {
        Ok(Some(c)) => c,
        Ok(None) => return json!({"err": "rules vanished"}),
        Err(e) => return json!({"err": e.to_string()}),
    };
    let mut logger = ConnectionLogger::new(0, 0);
    json!({ "allowed": computed.is_allowed(&mut logger, url, claims) })
}

fn rbac_one(case: &Value) -> Value {
    let item = match item_from(&case["item"]) {
        Ok(Some(i)) => i,
        Ok(None) => return json!({"err": "null item"}),
        Err(e) => return json!({"err": e}),
    };
    let url = match hyper::Uri::from_str(&s(case, "url")) {
        Ok(u) => u,
        Err(e) => return json!({"err": format!("uri: {e}")}),
    };
    let claims = claims_from(&case["claims"]);
    let computed = ComputedAuthorizationItem::from_authorization_item(item);
    let mut logger = ConnectionLogger::new(0, 0);
    let allowed = computed.is_allowed(&mut logger, url, claims);
    json!({ "allowed": allowed })
}

fn authorize_one(case: &Value) -> Value {
    let rules = match item_from(&case["item"]) {
        Ok(Some(i)) => Some(ComputedAuthorizationItem::from_authorization_item(i)),
        Ok(None) => None,
        Err(e) => return json!({"err": e}),
    };
    let url = match hyper::Uri::from_str(&s(case, "url")) {
        Ok(u) => u,
        Err(e) => return json!({"err": format!("uri: {e}")}),
    };
    let claims = claims_from(&case["claims"]);
    let mut logger = ConnectionLogger::new(0, 0);
    let r = proxy_authorizer::authorize(
        s(case, "ip"),
        u(case, "port", 0) as u16,
        &mut logger,
        url,
        claims,
        rules,
    );
    let name = match r {
        AuthorizeResult::Ok => "Ok",
        AuthorizeResult::OkWithAudit => "OkWithAudit",
        AuthorizeResult::Forbidden => "Forbidden",
    };
    json!({ "result": name })
}

/// canonical string from the proxy route: as_sig_input(parts, body)
fn sig_input_one(case: &Value) -> Value {
    let mut builder = http::Request::builder()
        .method(s(case, "method").as_str())
        .uri(s(case, "uri").as_str());
    if let Some(hs) = case.get("headers").and_then(|h| h.as_array()) {
        for h in hs {
            let name = h[0].as_str().unwrap_or("");
            let val = hex::decode(h[1].as_str().unwrap_or("")).unwrap_or_default();
            let hv = match http::HeaderValue::from_bytes(&val) {
                Ok(v) => v,
                Err(e) => return json!({"err": format!("header value: {e}")}),
            };
            builder = builder.header(name, hv);
        }
    }
    let req = match builder.body(()) {
        Ok(r) => r,
        Err(e) => return json!({"err": format!("build: {e}")}),
    };
    let (parts, _) = req.into_parts();
    let body = hex::decode(s(case, "body")).unwrap_or_default();
    let out = hyper_client::as_sig_input(parts, hyper::body::Bytes::from(body));
    json!({ "input": hex::encode(out) })
}

/// the agent's own route: build_request(.., key_guid, key) -> all headers as built
fn build_request_one(case: &Value) -> Value {
    let method = match http::Method::from_bytes(s(case, "method").as_bytes()) {
        Ok(m) => m,
        Err(e) => return json!({"err": format!("method: {e}")}),
    };
    let url = match hyper::Uri::from_str(&s(case, "url")) {
        Ok(u) => u,
        Err(e) => return json!({"err": format!("uri: {e}")}),
    };
    let mut headers = HashMap::new();
    if let Some(hs) = case.get("headers").and_then(|h| h.as_object()) {
        for (k, v) in hs {
            headers.insert(k.to_string(), v.as_str().unwrap_or("").to_string());
        }
    }
    let body = case
        .get("body")
        .and_then(|x| x.as_str())
        .map(|h| hex::decode(h).unwrap_or_default());
    let key_guid = case.get("key_guid").and_then(|x| x.as_str()).map(|x| x.to_string());
    let key = case.get("key").and_then(|x| x.as_str()).map(|x| x.to_string());
    match hyper_client::build_request(method, &url, &headers, body.as_deref(), key_guid, key) {
        Ok(req) => {
            let hs: Vec<Value> = req
                .headers()
                .iter()
                .map(|(k, v)| json!([k.as_str(), hex::encode(v.as_bytes())]))
                .collect();
            json!({"method": req.method().as_str(), "uri": req.uri().to_string(), "headers": hs})
        }
        Err(e) => json!({"err": e.to_string()}),
    }
}

async fn kk_snapshot() -> Value {
    let kk = shared().get_key_keeper_shared_state();
    let ser = |r: agentlib::common::result::Result<Option<ComputedAuthorizationItem>>| match r {
        Ok(Some(x)) => serde_json::to_value(&x).unwrap_or(Value::Null),
        Ok(None) => Value::Null,
        Err(e) => json!({"err": e.to_string()}),
    };
    json!({
        "state": kk.get_current_secure_channel_state().await.unwrap_or_else(|e| format!("ERR {e}")),
        "key_guid": kk.get_current_key_guid().await.unwrap_or(None),
        "key_value": kk.get_current_key_value().await.unwrap_or(None),
        "key_incarnation": kk.get_current_key_incarnation().await.unwrap_or(None),
        "wireserver_rule_id": kk.get_wireserver_rule_id().await.unwrap_or_default(),
        "imds_rule_id": kk.get_imds_rule_id().await.unwrap_or_default(),
        "hostga_rule_id": kk.get_hostga_rule_id().await.unwrap_or_default(),
        "wireserver_rules": ser(kk.get_wireserver_rules().await),
        "imds_rules": ser(kk.get_imds_rules().await),
        "hostga_rules": ser(kk.get_hostga_rules().await),
    })
}

async fn dispatch(op: String, a: Value) -> Value {
    match op.as_str() {
        "ping" => json!({"pong": true, "pid": std::process::id()}),
        "init" => {
            let log_dir = s(&a, "log_dir");
            if !log_dir.is_empty() {
                let level = LoggerLevel::from_str(&s(&a, "log_level")).unwrap_or(LoggerLevel::Trace);
                logger_manager::set_logger_level(level);
                let size = u(&a, "log_size", 10 * 1024 * 1024);
                let count = u(&a, "log_count", 5) as u16;
                let mut loggers = HashMap::new();
                loggers.insert(
                    agentlib::common::logger::AGENT_LOGGER_KEY.to_string(),
                    RollingLogger::create_new(PathBuf::from(&log_dir), "ProxyAgent.log".to_string(), size, count),
                );
                loggers.insert(
                    ConnectionLogger::CONNECTION_LOGGER_KEY.to_string(),
                    RollingLogger::create_new(
                        PathBuf::from(&log_dir),
                        "ProxyAgent.Connection.log".to_string(),
                        size,
                        count,
                    ),
                );
                logger_manager::set_loggers(loggers, agentlib::common::logger::AGENT_LOGGER_KEY.to_string());
            }
            let _ = SHARED.set(SharedState::start_all());
            json!({})
        }
        "proxy_start" => {
            let server = ProxyServer::new(u(&a, "port", 3080) as u16, shared());
            tokio::spawn(async move { server.start().await });
            json!({})
        }
        "cancel" => {
            shared().cancel_cancellation_token();
            json!({})
        }
        "set_rules" => {
            let kk = shared().get_key_keeper_shared_state();
            let item = match item_from(&a["item"]) {
                Ok(i) => i,
                Err(e) => return json!({"err": e}),
            };
            let r = match s(&a, "endpoint").as_str() {
                "wireserver" => kk.set_wireserver_rules(item).await,
                "imds" => kk.set_imds_rules(item).await,
                _ => kk.set_hostga_rules(item).await,
            };
            match r {
                Ok(()) => json!({}),
                Err(e) => json!({"err": e.to_string()}),
            }
        }
        "update_key" => {
            let key: Key = match serde_json::from_value(a["key"].clone()) {
                Ok(k) => k,
                Err(e) => return json!({"err": e.to_string()}),
            };
            match shared().get_key_keeper_shared_state().update_key(key).await {
                Ok(()) => json!({}),
                Err(e) => json!({"err": e.to_string()}),
            }
        }
        "clear_key" => match shared().get_key_keeper_shared_state().clear_key().await {
            Ok(()) => json!({}),
            Err(e) => json!({"err": e.to_string()}),
        },
        // rotates through a list of keys as fast as asked, from inside the process (C10)
        "rotate_keys" => {
            let keys: Vec<Key> = match serde_json::from_value(a["keys"].clone()) {
                Ok(k) => k,
                Err(e) => return json!({"err": e.to_string()}),
            };
            let period_us = u(&a, "period_us", 100);
            let clear_every = u(&a, "clear_every", 0);
            let kk = shared().get_key_keeper_shared_state();
            let mut log = Vec::new();
            for (i, k) in keys.into_iter().enumerate() {
                let guid = k.guid.clone();
                if clear_every > 0 && (i as u64) % clear_every == clear_every - 1 {
                    let t0 = mono_ns();
                    let _ = kk.clear_key().await;
                    log.push(json!(["clear", t0.to_string(), mono_ns().to_string()]));
                }
                let t0 = mono_ns();
                let _ = kk.update_key(k).await;
                log.push(json!([guid, t0.to_string(), mono_ns().to_string()]));
                if period_us > 0 {
                    tokio::time::sleep(Duration::from_micros(period_us)).await;
                } else {
                    tokio::task::yield_now().await;
                }
            }
            json!({ "log": log })
        }
        "set_channel_state" => {
            match shared()
                .get_key_keeper_shared_state()
                .update_current_secure_channel_state(s(&a, "state"))
                .await
            {
                Ok(x) => json!({ "updated": x }),
                Err(e) => json!({"err": e.to_string()}),
            }
        }
        "kk_snapshot" => kk_snapshot().await,
        "summaries" => {
            let st = shared().get_agent_status_shared_state();
            json!({
                "ok": serde_json::to_value(st.get_all_connection_summary().await.unwrap_or_default()).unwrap(),
                "failed": serde_json::to_value(st.get_all_failed_connection_summary().await.unwrap_or_default()).unwrap(),
                "connection_count": st.get_connection_count().await.unwrap_or(0).to_string(),
            })
        }
        "clear_summaries" => {
            let _ = shared().get_agent_status_shared_state().clear_all_summary().await;
            json!({})
        }
        "status_task_start" => {
            let task = ProxyAgentStatusTask::new(
                Duration::from_millis(u(&a, "interval_ms", 50)),
                PathBuf::from(s(&a, "dir")),
                shared().get_cancellation_token(),
                shared().get_key_keeper_shared_state(),
                shared().get_agent_status_shared_state(),
            );
            tokio::spawn(async move { task.start().await });
            json!({})
        }
        "key_keeper_start" => {
            let base: hyper::Uri = match s(&a, "base_url").parse() {
                Ok(u) => u,
                Err(e) => return json!({"err": format!("{e}")}),
            };
            let kk = KeyKeeper::new(
                base,
                PathBuf::from(s(&a, "key_dir")),
                PathBuf::from(s(&a, "log_dir")),
                Duration::from_millis(u(&a, "interval_ms", 10)),
                shared(),
            );
            tokio::spawn(async move { kk.poll_secure_channel_status().await });
            json!({})
        }
        "notify_key_keeper" => {
            let _ = shared().get_key_keeper_shared_state().notify().await;
            json!({})
        }
        "event_logger_start" => {
            let dir = PathBuf::from(s(&a, "dir"));
            let interval = Duration::from_millis(u(&a, "interval_ms", 20));
            let max = u(&a, "max_files", 30) as usize;
            tokio::spawn(async move {
                event_logger::start(dir, interval, max, |_s: String| async {}).await;
            });
            json!({})
        }
        "event_logger_stop" => {
            event_logger::stop();
            json!({})
        }
        "event_reader_start" => {
            let reader = EventReader::new(
                PathBuf::from(s(&a, "dir")),
                b(&a, "delay_start"),
                shared().get_cancellation_token(),
                shared().get_key_keeper_shared_state(),
                shared().get_telemetry_shared_state(),
                shared().get_agent_status_shared_state(),
            );
            let interval = Duration::from_millis(u(&a, "interval_ms", 100));
            let ip = a.get("ip").and_then(|x| x.as_str()).map(|x| x.to_string());
            let port = a.get("port").and_then(|x| x.as_u64()).map(|p| p as u16);
            tokio::spawn(async move {
                reader.start(Some(interval), ip.as_deref(), port).await;
            });
            json!({})
        }
        "advance" => {
            // paused runtime only: advance virtual time
            tokio::time::advance(Duration::from_millis(u(&a, "ms", 1000))).await;
            json!({})
        }
        "sleep" => {
            tokio::time::sleep(Duration::from_millis(u(&a, "ms", 1))).await;
            json!({})
        }
        // ---- provisioning (C16): every call is timed at the caller
        "prov" => {
            let sh = shared();
            let t0 = mono_ns();
            let u0 = proxy_agent_shared::misc_helpers::get_date_time_unix_nano();
            let what = s(&a, "what");
            let result: Value = match what.as_str() {
                "redirector_ready" => {
                    provision::redirector_ready(
                        sh.get_cancellation_token(),
                        sh.get_key_keeper_shared_state(),
                        sh.get_telemetry_shared_state(),
                        sh.get_provision_shared_state(),
                        sh.get_agent_status_shared_state(),
                    )
                    .await;
                    Value::Null
                }
                "listener_started" => {
                    provision::listener_started(
                        sh.get_cancellation_token(),
                        sh.get_key_keeper_shared_state(),
                        sh.get_telemetry_shared_state(),
                        sh.get_provision_shared_state(),
                        sh.get_agent_status_shared_state(),
                    )
                    .await;
                    Value::Null
                }
                "key_latched" => {
                    provision::key_latched(
                        sh.get_cancellation_token(),
                        sh.get_key_keeper_shared_state(),
                        sh.get_telemetry_shared_state(),
                        sh.get_provision_shared_state(),
                        sh.get_agent_status_shared_state(),
                    )
                    .await;
                    Value::Null
                }
                "reset" => {
                    provision::key_latch_ready_state_reset(sh.get_provision_shared_state()).await;
                    Value::Null
                }
                "timeup" => {
                    let dir = a.get("dir").and_then(|x| x.as_str()).map(PathBuf::from);
                    provision::provision_timeup(
                        dir,
                        sh.get_provision_shared_state(),
                        sh.get_agent_status_shared_state(),
                    )
                    .await;
                    Value::Null
                }
                "query" => {
                    let st = provision::get_provision_state_internal(
                        sh.get_provision_shared_state(),
                        sh.get_agent_status_shared_state(),
                        sh.get_key_keeper_shared_state(),
                    )
                    .await;
                    json!({
                        "finished_time_tick": st.finished_time_tick.to_string(),
                        "error_message": st.error_message,
                        "channel_state": st.key_keeper_secure_channel_state,
                    })
                }
                "flags" => {
                    let f = sh.get_provision_shared_state().get_state().await;
                    let t = sh.get_provision_shared_state().get_provision_finished().await;
                    json!({
                        "flags": f.map(|x| x.bits()).unwrap_or(255),
                        "finished_time_tick": t.map(|x| x.to_string()).unwrap_or_default(),
                    })
                }
                "now_tick" => json!(proxy_agent_shared::misc_helpers::get_date_time_unix_nano().to_string()),
                _ => json!({"err": "unknown prov op"}),
            };
            json!({"t0": t0.to_string(), "t1": mono_ns().to_string(), "u0": u0.to_string(),
                   "u1": proxy_agent_shared::misc_helpers::get_date_time_unix_nano().to_string(), "result": result})
        }
        // ---- pure / site calls
        "rbac_batch" => {
            let cases = a["cases"].as_array().cloned().unwrap_or_default();
            let mut out = Vec::with_capacity(cases.len());
            for c in cases {
                if s(&c, "route") == "state" || s(&c, "route") == "keystatus" {
                    out.push(rbac_state_one(&c).await);
                    continue;
                }
                match std::panic::catch_unwind(std::panic::AssertUnwindSafe(|| rbac_one(&c))) {
                    Ok(v) => out.push(v),
                    Err(_) => out.push(json!({"panic": true})),
                }
            }
            json!({ "results": out })
        }
        "authorize_batch" => {
            let cases = a["cases"].as_array().cloned().unwrap_or_default();
            let mut out = Vec::with_capacity(cases.len());
            for c in cases {
                match std::panic::catch_unwind(std::panic::AssertUnwindSafe(|| authorize_one(&c))) {
                    Ok(v) => out.push(v),
                    Err(_) => out.push(json!({"panic": true})),
                }
            }
            json!({ "results": out })
        }
        "sig_input_batch" => {
            let cases = a["cases"].as_array().cloned().unwrap_or_default();
            let mut out = Vec::with_capacity(cases.len());
            for c in cases {
                match std::panic::catch_unwind(std::panic::AssertUnwindSafe(|| sig_input_one(&c))) {
                    Ok(v) => out.push(v),
                    Err(_) => out.push(json!({"panic": true})),
                }
            }
            json!({ "results": out })
        }
        "build_request_batch" => {
            let cases = a["cases"].as_array().cloned().unwrap_or_default();
            let mut out = Vec::with_capacity(cases.len());
            for c in cases {
                match std::panic::catch_unwind(std::panic::AssertUnwindSafe(|| build_request_one(&c))) {
                    Ok(v) => out.push(v),
                    Err(_) => out.push(json!({"panic": true})),
                }
            }
            json!({ "results": out })
        }
        "rules_lookup_dead_state" => {
            // a key-keeper state whose actor task is gone (its runtime was shut down): the policy lookup must fail, not report 'no rules'
            let kk = std::thread::spawn(|| {
                let rt = tokio::runtime::Builder::new_current_thread().enable_all().build().unwrap();
                let kk = rt.block_on(async { agentlib::shared_state::key_keeper_wrapper::KeyKeeperSharedState::start_new() });
                drop(rt);
                kk
            })
            .join()
            .unwrap();
            let r = proxy_authorizer::get_access_control_rules(s(&a, "ip"), u(&a, "port", 80) as u16, kk).await;
            match r {
                Err(e) => json!({"outcome": "error", "text": e.to_string()}),
                Ok(None) => json!({"outcome": "ok-no-rules"}),
                Ok(Some(_)) => json!({"outcome": "ok-rules"}),
            }
        }
        "compute_signature" => match helpers::compute_signature(&s(&a, "key"), &hex::decode(s(&a, "input")).unwrap_or_default()) {
            Ok(x) => json!({ "sig": x }),
            Err(e) => json!({"err": e.to_string()}),
        },
        "write_event" => {
            event_logger::write_event(
                match a.get("level").and_then(|v| v.as_str()).unwrap_or("Info") {
                    "Error" => LoggerLevel::Error,
                    "Warn" => LoggerLevel::Warn,
                    "Trace" => LoggerLevel::Trace,
                    _ => LoggerLevel::Info,
                },
                s(&a, "message"),
                "verif",
                "verif",
                agentlib::common::logger::AGENT_LOGGER_KEY,
            );
            json!({})
        }
        "status_message" => {
            let st = shared().get_agent_status_shared_state();
            let module = module_from(&s(&a, "module"));
            let _ = st.set_module_status_message(s(&a, "message"), module.clone()).await;
            let d = st.get_module_status(module).await;
            json!({ "message": d.message })
        }
        "xml_escape" => json!({ "out": helpers::xml_escape(s(&a, "text")) }),
        "hyper_get" => {
            let url: hyper::Uri = match s(&a, "url").parse() {
                Ok(u) => u,
                Err(e) => return json!({"err": format!("{e}")}),
            };
            let headers = HashMap::new();
            let r: agentlib::common::result::Result<Value> =
                hyper_client::get(&url, &headers, None, None, |_m: String| {}).await;
            match r {
                Ok(v) => json!({ "value": v }),
                Err(e) => json!({"err": e.to_string()}),
            }
        }
        "key_get_status" => {
            let url: hyper::Uri = match s(&a, "base_url").parse() {
                Ok(u) => u,
                Err(e) => return json!({"err": format!("{e}")}),
            };
            match agentlib::key_keeper::key::get_status(&url).await {
                Ok(st) => json!({"status": serde_json::to_value(&st).unwrap_or(Value::Null), "display": st.to_string()}),
                Err(e) => json!({"err": e.to_string()}),
            }
        }
        "lookup_audit" => {
            let rs = shared().get_redirector_shared_state();
            match agentlib::redirector::lookup_audit(u(&a, "port", 0) as u16, &rs).await {
                Ok(e) => json!({
                    "logon_id": e.logon_id, "process_id": e.process_id, "is_admin": e.is_admin,
                    "ip": e.destination_ipv4_addr().to_string(),
                    "port": e.destination_port_in_host_byte_order(),
                    "ip_raw": e.destination_ipv4, "ip_to_string": agentlib::redirector::ip_to_string(e.destination_ipv4),
                }),
                Err(e) => json!({"err": e.to_string()}),
            }
        }
        "remove_audit" => {
            let rs = shared().get_redirector_shared_state();
            match agentlib::redirector::remove_audit(u(&a, "port", 0) as u16, &rs).await {
                Ok(()) => json!({}),
                Err(e) => json!({"err": e.to_string()}),
            }
        }
        "update_policies" => {
            let rs = shared().get_redirector_shared_state();
            agentlib::redirector::update_wire_server_redirect_policy(b(&a, "wireserver"), rs.clone()).await;
            agentlib::redirector::update_imds_redirect_policy(b(&a, "imds"), rs.clone()).await;
            agentlib::redirector::update_hostga_redirect_policy(b(&a, "hostga"), rs.clone()).await;
            json!({})
        }
        "ip_roundtrip" => {
            let ip = u(&a, "ip", 0) as u32;
            let text = agentlib::redirector::ip_to_string(ip);
            let back = agentlib::redirector::string_to_ip(&text);
            json!({"text": text, "back": back})
        }
        "claims_from_audit" => {
            let mut e = agentlib::redirector::AuditEntry::empty();
            e.logon_id = u(&a, "logon_id", 0);
            e.process_id = u(&a, "process_id", 0) as u32;
            e.is_admin = u(&a, "is_admin", 0) as i32;
            match Claims::from_audit_entry(
                &e,
                "127.0.0.1".parse().unwrap(),
                1,
                shared().get_proxy_server_shared_state(),
            )
            .await
            {
                Ok(c) => json!({"userId": c.userId, "userName": c.userName, "userGroups": c.userGroups,
                    "processId": c.processId, "processName": c.processName.to_string_lossy(),
                    "processFullPath": c.processFullPath.to_string_lossy(), "processCmdLine": c.processCmdLine,
                    "runAsElevated": c.runAsElevated}),
                Err(e) => json!({"err": e.to_string()}),
            }
        }
        // ---- C13: the log header at instants whose sub-second part has trailing zeros (the time stamp is then
        // printed shorter). The loop waits for the wall clock to approach a 10 ms boundary and calls the real
        // get_log_header back to back across it; reading the clock exactly on the boundary happens about once in a
        // few hundred crossings. Each call runs under catch_unwind so that the loop goes on after a panic (the
        // process-wide hook has recorded it).
        "log_header_spin" => {
            let dur = Duration::from_millis(u(&a, "duration_ms", 2000));
            let t0 = std::time::Instant::now();
            let (mut calls, mut short, mut panicked) = (0u64, 0u64, 0u64);
            let mut example = String::new();
            while t0.elapsed() < dur {
                let now = std::time::SystemTime::now().duration_since(std::time::UNIX_EPOCH).unwrap();
                let to_boundary = 10_000_000 - (now.subsec_nanos() % 10_000_000);
                if to_boundary > 30_000 {
                    std::hint::spin_loop();
                    continue;
                }
                for _ in 0..400 {
                    calls += 1;
                    let level = if calls % 2 == 0 { LoggerLevel::Info } else { LoggerLevel::Warn };
                    match std::panic::catch_unwind(|| proxy_agent_shared::logger::get_log_header(level)) {
                        Ok(h) => {
                            if h.len() < 34 {
                                short += 1;
                                example = h;
                            }
                        }
                        Err(_) => panicked += 1,
                    }
                }
            }
            json!({"calls": calls, "short_headers": short, "panicked_calls": panicked, "example_short_header": example})
        }
        // ---- C19 engines
        "logger_new" => {
            let l = RollingLogger::create_new(
                PathBuf::from(s(&a, "dir")),
                s(&a, "name"),
                u(&a, "size", 1024),
                u(&a, "count", 3) as u16,
            );
            LOGGERS
                .get_or_init(|| Mutex::new(HashMap::new()))
                .lock()
                .unwrap()
                .insert(s(&a, "id"), Arc::new(l));
            json!({})
        }
        "logger_write" => {
            let l = LOGGERS.get().and_then(|m| m.lock().unwrap().get(&s(&a, "id")).cloned());
            match l {
                Some(l) => {
                    let r = if let Some(many) = a.get("many").and_then(|x| x.as_array()) {
                        l.write_many(many.iter().map(|x| x.as_str().unwrap_or("").to_string()).collect())
                    } else {
                        l.write(LoggerLevel::Info, s(&a, "message"))
                    };
                    match r {
                        Ok(()) => json!({}),
                        Err(e) => json!({"err": e.to_string()}),
                    }
                }
                None => json!({"err": "no such logger"}),
            }
        }
        "rules_write_all" => {
            let input = match serde_json::from_value(a["input"].clone()) {
                Ok(x) => x,
                Err(e) => return json!({"err": e.to_string()}),
            };
            let mk = |v: &Value| match item_from(v) {
                Ok(Some(i)) => Some(ComputedAuthorizationItem::from_authorization_item(i)),
                _ => None,
            };
            let computed = ComputedAuthorizationRules {
                imds: mk(&a["input"]["imds"]),
                wireserver: mk(&a["input"]["wireserver"]),
                hostga: mk(&a["input"]["hostga"]),
            };
            let r = AuthorizationRulesForLogging::new(input, computed);
            r.write_all(&PathBuf::from(s(&a, "dir")), u(&a, "max", 5) as usize);
            json!({})
        }
        // ---- C20 (notification path of the extension)
        "ext_logger_init" => {
            extlib::logger::init_logger(s(&a, "dir"), &s(&a, "name"));
            json!({})
        }
        "ext_notify" => {
            let mut map = EXT_STATES.get_or_init(|| Mutex::new(HashMap::new())).lock().unwrap();
            let st = map.entry(s(&a, "id")).or_default();
            extlib::service_main::verif_write_state_event(
                &s(&a, "key"),
                &s(&a, "value"),
                s(&a, "message"),
                &s(&a, "logger_key"),
                st,
            );
            json!({})
        }
        // ---- real kernel BPF maps/programs through the production BpfObject (aya glue)
        "bpf_load" => {
            use aya::maps::Map;
            let path = PathBuf::from(s(&a, "path"));
            match agentlib::redirector::BpfObject::from_ebpf_file(&path) {
                Ok(obj) => {
                    let mut ids = HashMap::new();
                    for name in ["audit_map", "policy_map", "skip_process_map", "local_map"] {
                        if let Some(m) = obj.get_bpf().map(name) {
                            let md = match m {
                                Map::HashMap(md) | Map::LruHashMap(md) => Some(md),
                                _ => None,
                            };
                            if let Some(md) = md {
                                if let Ok(info) = md.info() {
                                    ids.insert(name.to_string(), info.id());
                                }
                            }
                        }
                    }
                    let _ = BPF_MAP_IDS.set(ids.clone());
                    let _ = BPF.set(Arc::new(std::sync::Mutex::new(obj)));
                    json!({ "map_ids": ids })
                }
                Err(e) => json!({"err": e.to_string()}),
            }
        }
        // a start attempt that fails after the start-up map updates (as Redirector::start_impl's retry loop produces when a later
        // step fails): its own BpfObject, the same updates, then the object is dropped
        "bpf_failed_start_attempt" => {
            let path = PathBuf::from(s(&a, "path"));
            match agentlib::redirector::BpfObject::from_ebpf_file(&path) {
                Ok(mut o) => {
                    let pid = std::process::id();
                    let r1 = o.update_skip_process_map(pid).map_err(|e| e.to_string());
                    use agentlib::common::constants as c;
                    let r2 = o
                        .update_policy_elem_bpf_map("WireServer endpoints", u(&a, "local_port", 3080) as u16, c::WIRE_SERVER_IP_NETWORK_BYTE_ORDER, c::WIRE_SERVER_PORT)
                        .map_err(|e| e.to_string());
                    drop(o);
                    json!({"skip_map_update": r1.is_ok(), "policy_update": r2.is_ok()})
                }
                Err(e) => json!({"err": e.to_string()}),
            }
        }
        "bpf_startup_maps" => {
            // what Redirector::start_internal does before attaching: skip map + one policy element per endpoint
            let obj = match BPF.get() { Some(o) => o, None => return json!({"err": "not loaded"}) };
            let mut o = obj.lock().unwrap();
            let pid = u(&a, "pid", std::process::id() as u64) as u32;
            let mut errs = Vec::new();
            if let Err(e) = o.update_skip_process_map(pid) { errs.push(e.to_string()); }
            use agentlib::common::constants as c;
            for (on, name, ip, port) in [(b(&a, "wireserver"), "WireServer endpoints", c::WIRE_SERVER_IP_NETWORK_BYTE_ORDER, c::WIRE_SERVER_PORT),
                                          (b(&a, "imds"), "IMDS endpoints", c::IMDS_IP_NETWORK_BYTE_ORDER, c::IMDS_PORT),
                                          (b(&a, "hostga"), "Host GAPlugin endpoints", c::GA_PLUGIN_IP_NETWORK_BYTE_ORDER, c::GA_PLUGIN_PORT)] {
                if on {
                    if let Err(e) = o.update_policy_elem_bpf_map(name, u(&a, "local_port", 3080) as u16, ip, port) { errs.push(e.to_string()); }
                }
            }
            json!({ "errors": errs })
        }
        "bpf_attach_cgroup" => {
            let obj = match BPF.get() { Some(o) => o, None => return json!({"err": "not loaded"}) };
            match obj.lock().unwrap().attach_cgroup_program(PathBuf::from(s(&a, "cgroup"))) {
                Ok(()) => json!({}),
                Err(e) => json!({"err": e.to_string()}),
            }
        }
        "bpf_attach_kprobe" => {
            let obj = match BPF.get() { Some(o) => o, None => return json!({"err": "not loaded"}) };
            match obj.lock().unwrap().attach_kprobe_program() {
                Ok(()) => json!({}),
                Err(e) => json!({"err": e.to_string()}),
            }
        }
        "bpf_install" => {
            let obj = match BPF.get() { Some(o) => o.clone(), None => return json!({"err": "not loaded"}) };
            let rs = shared().get_redirector_shared_state();
            let r1 = rs.update_bpf_object(obj).await;
            let r2 = rs.set_local_port(u(&a, "local_port", 3080) as u16).await;
            json!({"update_bpf_object": r1.is_ok(), "set_local_port": r2.is_ok()})
        }
        // driver-side access to the SAME kernel maps through second handles opened by map id
        "bpf_map" => {
            use aya::maps::{HashMap as BpfHashMap, Map, MapData};
            let name = s(&a, "map");
            let id = match BPF_MAP_IDS.get().and_then(|m| m.get(&name)) { Some(i) => *i, None => return json!({"err": "unknown map"}) };
            let md = match MapData::from_id(id) { Ok(m) => m, Err(e) => return json!({"err": e.to_string()}) };
            let act = s(&a, "action");
            let words = |h: &str| -> Vec<u32> { hex::decode(h).unwrap_or_default().chunks(4).map(|c| u32::from_ne_bytes([c[0], c[1], c[2], c[3]])).collect() };
            let hexw = |w: &[u32]| -> String { w.iter().map(|x| hex::encode(x.to_ne_bytes())).collect::<Vec<_>>().join("") };
            macro_rules! run {
                ($variant:ident, $k:ty, $v:ty, $kn:expr, $vn:expr) => {{
                    let mut m: BpfHashMap<MapData, $k, $v> = match BpfHashMap::try_from(Map::$variant(md)) { Ok(m) => m, Err(e) => return json!({"err": e.to_string()}) };
                    match act.as_str() {
                        "insert" => {
                            let kw = words(&s(&a, "key")); let vw = words(&s(&a, "value"));
                            if kw.len() != $kn || vw.len() != $vn { return json!({"err": "size mismatch"}); }
                            let mut k: $k = [0; $kn]; k.copy_from_slice(&kw);
                            let mut v: $v = [0; $vn]; v.copy_from_slice(&vw);
                            match m.insert(k, v, 0) { Ok(()) => json!({}), Err(e) => json!({"err": e.to_string()}) }
                        }
                        "get" => {
                            let kw = words(&s(&a, "key"));
                            if kw.len() != $kn { return json!({"err": "size mismatch"}); }
                            let mut k: $k = [0; $kn]; k.copy_from_slice(&kw);
                            match m.get(&k, 0) { Ok(v) => json!({"value": hexw(&v)}), Err(_) => json!({"value": Value::Null}) }
                        }
                        "delete" => {
                            let kw = words(&s(&a, "key"));
                            let mut k: $k = [0; $kn]; k.copy_from_slice(&kw);
                            match m.remove(&k) { Ok(()) => json!({}), Err(e) => json!({"err": e.to_string()}) }
                        }
                        _ => {
                            let mut out = Vec::new();
                            for item in m.iter() {
                                if let Ok((k, v)) = item { out.push(json!([hexw(&k), hexw(&v)])); }
                            }
                            json!({ "entries": out })
                        }
                    }
                }};
            }
            match name.as_str() {
                "audit_map" => run!(LruHashMap, [u32; 2], [u32; 5], 2, 5),
                "policy_map" => run!(HashMap, [u32; 6], [u32; 6], 6, 6),
                "skip_process_map" => run!(HashMap, [u32; 1], [u32; 1], 1, 1),
                // local_map is internal to the kernel program (hand-off between its two hooks): its value layout is not fixed by
                // anything outside of it, so the size is taken from the loaded map
                _ => match md.info().map(|i| i.value_size()).unwrap_or(24) / 4 {
                    4 => run!(LruHashMap, [u32; 2], [u32; 4], 2, 4),
                    5 => run!(LruHashMap, [u32; 2], [u32; 5], 2, 5),
                    6 => run!(LruHashMap, [u32; 2], [u32; 6], 2, 6),
                    7 => run!(LruHashMap, [u32; 2], [u32; 7], 2, 7),
                    8 => run!(LruHashMap, [u32; 2], [u32; 8], 2, 8),
                    _ => json!({"err": "unsupported local_map value size"}),
                },
            }
        }
        "delay_counts" => {
            let c = agentlib::verif_hook::counts();
            json!({ "counts": c.into_iter().map(|(k, v)| (k, json!([v.0, v.1]))).collect::<serde_json::Map<_, _>>() })
        }
        "panics" => json!({ "panics": PANICS.get().map(|p| p.lock().unwrap().clone()).unwrap_or_default() }),
        _ => json!({"err": format!("unknown op {op}")}),
    }
}

async fn serve() {
    let path = std::env::var("GPA_SHIM_SOCK").expect("GPA_SHIM_SOCK");
    let stream = tokio::net::UnixStream::connect(&path).await.expect("connect rpc socket");
    let (rd, wr) = stream.into_split();
    let wr = Arc::new(tokio::sync::Mutex::new(wr));
    let mut lines = BufReader::with_capacity(1 << 20, rd).lines();
    while let Ok(Some(line)) = lines.next_line().await {
        let req: Value = match serde_json::from_str(&line) {
            Ok(v) => v,
            Err(_) => continue,
        };
        let id = req["id"].clone();
        let op = s(&req, "op");
        if op == "exit" {
            break;
        }
        let args = req["args"].clone();
        let wr = wr.clone();
        tokio::spawn(async move {
            let h = tokio::spawn(dispatch(op, args));
            let resp = match h.await {
                Ok(v) => json!({"id": id, "ok": v}),
                Err(e) => {
                    let last = PANICS
                        .get()
                        .and_then(|p| p.lock().unwrap().last().cloned())
                        .unwrap_or(Value::Null);
                    json!({"id": id, "panic": {"join": e.to_string(), "last": last}})
                }
            };
            let mut text = serde_json::to_string(&resp).unwrap();
            text.push('\n');
            let mut w = wr.lock().await;
            let _ = w.write_all(text.as_bytes()).await;
        });
    }
}

fn main() {
    PANICS.get_or_init(|| Mutex::new(Vec::new()));
    std::panic::set_hook(Box::new(|info| {
        let loc = info
            .location()
            .map(|l| format!("{}:{}:{}", l.file(), l.line(), l.column()))
            .unwrap_or_default();
        let msg = if let Some(s) = info.payload().downcast_ref::<&str>() {
            s.to_string()
        } else if let Some(s) = info.payload().downcast_ref::<String>() {
            s.clone()
        } else {
            "<non-string panic>".to_string()
        };
        let thread = std::thread::current().name().unwrap_or("").to_string();
        eprintln!("SHIM-PANIC at {loc}: {msg}");
        if let Some(p) = PANICS.get() {
            if let Ok(mut p) = p.lock() {
                p.push(json!({"location": loc, "message": msg, "thread": thread}));
            }
        }
    }));
    let mode = std::env::var("GPA_SHIM_RUNTIME").unwrap_or_else(|_| "multi:4".to_string());
    if mode == "current" || mode == "paused" {
        let rt = tokio::runtime::Builder::new_current_thread()
            .enable_all()
            .start_paused(mode == "paused")
            .build()
            .unwrap();
        rt.block_on(serve());
    } else {
        let n: usize = mode.strip_prefix("multi:").and_then(|x| x.parse().ok()).unwrap_or(4);
        let rt = tokio::runtime::Builder::new_multi_thread()
            .worker_threads(n)
            .enable_all()
            .build()
            .unwrap();
        rt.block_on(serve());
    }
    std::process::exit(0);
}

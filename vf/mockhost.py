"""Raw-socket mock metadata hosts: byte-exact capture of what arrives, scripted answers."""
import socket, threading, time, traceback
from . import rawhttp


RAW_CAP = 1 << 18


class Req:
    __slots__ = ("conn_id", "seq", "t_recv", "start", "method", "target", "version", "headers", "body", "framing", "chunks", "raw_head", "host")

    def header(self, name):
        v = rawhttp.hget(self.headers, name.encode() if isinstance(name, str) else name)
        return v[0] if v else None

    def headers_named(self, name):
        return rawhttp.hget(self.headers, name.encode() if isinstance(name, str) else name)


def render_response(spec):
    """spec: dict(status, reason, headers=[(k,v)], body=bytes, framing='cl'|'chunked'|'close', chunks=[sizes])"""
    def b(x):
        return x if isinstance(x, bytes) else str(x).encode("latin-1")
    status = spec.get("status", 200)
    out = b"HTTP/1.1 %d %s\r\n" % (status, b(spec.get("reason", "OK")))
    body = spec.get("body", b"")
    framing = spec.get("framing", "cl")
    for k, v in spec.get("headers", []):
        out += b(k) + b": " + b(v) + b"\r\n"
    if framing == "cl":
        out += b"Content-Length: %d\r\n\r\n" % len(body) + body
    elif framing == "chunked":
        out += b"Transfer-Encoding: chunked\r\n\r\n"
        pos = 0
        for n in spec.get("chunks", []) or [len(body) or 1]:
            if pos >= len(body):
                break
            part = body[pos:pos + max(1, n)]
            pos += len(part)
            out += b"%x\r\n" % len(part) + part + b"\r\n"
        if pos < len(body):
            part = body[pos:]
            out += b"%x\r\n" % len(part) + part + b"\r\n"
        out += b"0\r\n\r\n"
    elif framing == "none":
        out += b"\r\n"
    else:  # close-delimited
        out += b"Connection: close\r\n\r\n" + body
    return out


class MockHost:
    def __init__(self, ip, port, handler=None, name=None):
        self.ip, self.port, self.name = ip, port, name or "%s:%d" % (ip, port)
        self.handler = handler or (lambda req: {"status": 200, "body": b"ok"})
        self.requests = []
        self.conn_bytes = {}   # conn_id -> total bytes received
        self.conn_raw = {}     # conn_id -> first RAW_CAP bytes received, verbatim
        self.conn_count = 0
        self.lock = threading.Lock()
        self.sock = socket.socket(socket.AF_INET, socket.SOCK_STREAM)
        self.sock.setsockopt(socket.SOL_SOCKET, socket.SO_REUSEADDR, 1)
        self.sock.bind((ip, port))
        self.sock.listen(512)
        self.stop = False
        self.errors = []
        self.t = threading.Thread(target=self._accept, daemon=True)
        self.t.start()

    def _accept(self):
        while not self.stop:
            try:
                c, _ = self.sock.accept()
            except OSError:
                return
            with self.lock:
                self.conn_count += 1
                cid = self.conn_count
                self.conn_bytes[cid] = 0
                self.conn_raw[cid] = bytearray()
            threading.Thread(target=self._serve, args=(c, cid), daemon=True).start()

    def _serve(self, c, cid):
        buf = b""
        seq = 0
        c.setsockopt(socket.IPPROTO_TCP, socket.TCP_NODELAY, 1)

        class Counting:
            def __init__(s2, sock):
                s2.sock = sock

            def recv(s2, n):
                d = s2.sock.recv(n)
                if d:
                    with self.lock:
                        # a driver may clear these maps between batches while this connection is still open
                        self.conn_bytes[cid] = self.conn_bytes.get(cid, 0) + len(d)
                        raw = self.conn_raw.setdefault(cid, bytearray())
                        if len(raw) < RAW_CAP:
                            raw += d[:RAW_CAP - len(raw)]
                return d
        cs = Counting(c)
        try:
            while True:
                buf, ok = rawhttp.recv_until(cs, buf, b"\r\n\r\n")
                if not ok:
                    break
                head, buf = buf.split(b"\r\n\r\n", 1)
                r = Req()
                r.conn_id, r.seq, r.raw_head, r.host = cid, seq, head, self.name
                seq += 1
                r.start, r.headers = rawhttp.parse_head(head)
                parts = r.start.split(b" ")
                r.method, r.target = parts[0], parts[1] if len(parts) > 1 else b""
                r.version = parts[2] if len(parts) > 2 else b""
                r.body, buf, r.framing, r.chunks = rawhttp.read_body(cs, buf, r.headers)
                r.t_recv = time.monotonic_ns()
                with self.lock:
                    self.requests.append(r)
                spec = self.handler(r)
                if spec is None:
                    spec = {"status": 200, "body": b""}
                if spec.get("delay"):
                    time.sleep(spec["delay"])
                if spec.get("reset"):
                    import struct
                    c.setsockopt(socket.SOL_SOCKET, socket.SO_LINGER, struct.pack("ii", 1, 0))
                    break
                data = spec["raw"] if "raw" in spec else render_response(spec)
                segs = spec.get("segments")
                if segs:
                    pos = 0
                    for n in segs:
                        if pos >= len(data):
                            break
                        c.sendall(data[pos:pos + n])
                        pos += n
                        if spec.get("gap"):
                            time.sleep(spec["gap"])
                    if pos < len(data):
                        c.sendall(data[pos:])
                else:
                    c.sendall(data)
                if spec.get("framing") == "close" or spec.get("close"):
                    break
        except (OSError, rawhttp.ParseError) as e:
            self.errors.append(repr(e))
        except Exception:
            self.errors.append(traceback.format_exc())
        finally:
            try:
                c.close()
            except OSError:
                pass

    def total_bytes(self):
        with self.lock:
            return sum(self.conn_bytes.values())

    def raw_contains(self, token):
        with self.lock:
            return any(token in bytes(v) for v in self.conn_raw.values())

    def snapshot(self):
        with self.lock:
            return list(self.requests)

    def close(self):
        self.stop = True
        try:
            self.sock.shutdown(socket.SHUT_RDWR)
        except OSError:
            pass
        try:
            self.sock.close()
        except OSError:
            pass

"""Generators for rule documents, claims and URLs (tiny alphabets to force interaction)."""
import copy

NAMES = ["a", "b", "c", "A"]
PATHS = ["", "/", "/a", "/A", "/a/b", "/ab", "/a/", "/A/B", "/b"]
QKEYS = ["k", "K", "kk", "q"]
QVALS = ["v", "V", "", "w"]
USERS = ["root", "alice", "bob", "Alice"]
GROUPS = ["root", "vfstaff", "alice", "g"]
PNAMES = ["helper", "tool", "Tool", "python3"]
EXES = ["/usr/bin/tool", "/usr/bin/Tool", "/bin/helper", "/opt/x/python3"]


def gen_doc(r, dup_ok=True, mode=None, sections_missing_ok=True):
    mode = mode or r.choice(["disabled", "audit", "enforce", "Enforce", "AUDIT", "enforce", "audit"])
    doc = {"defaultAccess": r.choice(["allow", "deny", "Allow", "DENY", "deny"]), "mode": mode, "id": "id-%d" % r.randrange(10 ** 6)}
    if r.random() < 0.05:
        return doc  # no rules at all
    rules = {}
    np_ = r.randrange(0, 5)
    privs = []
    for i in range(np_):
        p = {"name": r.choice(NAMES) if dup_ok and r.random() < 0.25 else "p%d" % i, "path": r.choice(PATHS)}
        if r.random() < 0.45:
            qp = {}
            for _ in range(r.randrange(1, 3)):
                qp[r.choice(QKEYS)] = r.choice(QVALS)
            # two keys equal modulo case make the rule itself ambiguous for case-transforms; keep one
            low = {}
            for k, v in qp.items():
                low.setdefault(k.lower(), (k, v))
            p["queryParameters"] = {k: v for k, v in low.values()}
        privs.append(p)
    pnames = [p["name"] for p in privs] + ["ghost"]
    idents = []
    for i in range(r.randrange(0, 5)):
        ident = {"name": r.choice(NAMES) if dup_ok and r.random() < 0.25 else "i%d" % i}
        if r.random() < 0.5:
            ident["userName"] = r.choice(USERS)
        if r.random() < 0.3:
            ident["groupName"] = r.choice(GROUPS)
        if r.random() < 0.3:
            ident["processName"] = r.choice(PNAMES)
        if r.random() < 0.3:
            ident["exePath"] = r.choice(EXES)
        if r.random() < 0.1:
            # an attribute stated as the empty string is still stated: it must equal the caller's (so it matches no real caller)
            for k in r.sample(["userName", "groupName", "processName", "exePath"], r.randrange(1, 5)):
                ident[k] = ""
        idents.append(ident)
    inames = [i["name"] for i in idents] + ["nobody"]
    roles = []
    for i in range(r.randrange(0, 5)):
        roles.append({"name": r.choice(NAMES) if dup_ok and r.random() < 0.25 else "r%d" % i,
                      "privileges": [r.choice(pnames) for _ in range(r.randrange(0, 4))]})
    rnames = [x["name"] for x in roles] + ["norole"]
    ras = []
    for i in range(r.randrange(0, 5)):
        ras.append({"role": r.choice(rnames), "identities": [r.choice(inames) for _ in range(r.randrange(0, 4))]})
    rules["privileges"], rules["roles"], rules["identities"], rules["roleAssignments"] = privs, roles, idents, ras
    if sections_missing_ok and r.random() < 0.08:
        del rules[r.choice(list(rules.keys()))]
    doc["rules"] = rules
    return doc


def gen_claims(r):
    user = r.choice(USERS)
    return {"userId": 0 if user == "root" else 1000 + USERS.index(user), "userName": user,
            "userGroups": r.sample(GROUPS, r.randrange(0, 3)),
            "processName": r.choice(PNAMES), "processFullPath": r.choice(EXES),
            "processCmdLine": "cmd", "runAsElevated": r.random() < 0.5}


def gen_url(r):
    path = r.choice(["/", "/a", "/A", "/a/b", "/A/b", "/ab", "/a/", "/b", "/a/b/c", "/AB", "/c"])
    n = r.choice([0, 0, 1, 1, 2, 3])
    parts = []
    for _ in range(n):
        k = r.choice(QKEYS)
        form = r.random()
        if form < 0.7:
            parts.append("%s=%s" % (k, r.choice(QVALS)))
        elif form < 0.85:
            parts.append(k)
        else:
            parts.append("")  # '&&'
    if n == 0 and r.random() < 0.2:
        return path + "?"
    return path + ("?" + "&".join(parts) if parts else "")


def swapcase_some(r, s):
    return "".join(c.swapcase() if r.random() < 0.6 else c for c in s)


def transforms(r, doc, claims, url):
    """metamorphic variants that must not change the decision: list of (label, doc, claims, url)"""
    out = []
    d = copy.deepcopy(doc)
    rules = d.get("rules")
    if rules:
        for sec in ("privileges", "roles", "identities", "roleAssignments"):
            if rules.get(sec):
                r.shuffle(rules[sec])
        for ro in rules.get("roles") or []:
            r.shuffle(ro["privileges"])
        for ra in rules.get("roleAssignments") or []:
            r.shuffle(ra["identities"])
        out.append(("permute", d, claims, url))
        # key order of the JSON objects (re-serialisation)
        d2 = copy.deepcopy(doc)
        d2 = {k: d2[k] for k in reversed(list(d2.keys()))}
        if d2.get("rules"):
            d2["rules"] = {k: d2["rules"][k] for k in reversed(list(d2["rules"].keys()))}
        out.append(("reserialize", d2, claims, url))
        # letter case of the rule's path and query text
        d3 = copy.deepcopy(doc)
        for p in d3["rules"].get("privileges") or []:
            p["path"] = swapcase_some(r, p["path"])
            if p.get("queryParameters"):
                nq = {}
                for k, v in p["queryParameters"].items():
                    nq[swapcase_some(r, k)] = swapcase_some(r, v)
                if len(nq) == len(p["queryParameters"]):
                    p["queryParameters"] = nq
        out.append(("rule-case", d3, claims, url))
    # letter case of the request path and query
    out.append(("url-case", doc, claims, swapcase_some(r, url)))
    # letter case of mode / defaultAccess words
    d4 = copy.deepcopy(doc)
    d4["mode"] = swapcase_some(r, d4["mode"])
    d4["defaultAccess"] = swapcase_some(r, d4["defaultAccess"])
    out.append(("mode-case", d4, claims, url))
    return out

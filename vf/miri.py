"""Miri replays (thorough tiers): corpora exported by the Python generators are replayed through the real sources under the
undefined-behaviour / data-race interpreter. A Miri error or a replay mismatch is a violation; a tool failure is inconclusive."""
import json, os, re, shutil, subprocess, tempfile
from . import common

MIRI_TARGET = os.path.join(common.TARGET, "miri")


def run(corpora, tests, rep, timeout=3000):
    """corpora: dict name -> list of cases; tests: list of test function names"""
    d = tempfile.mkdtemp(prefix="gpa-verif.", dir="/var/tmp")
    try:
        for name, cases in corpora.items():
            with open(os.path.join(d, name + ".json"), "w") as f:
                json.dump(cases, f)
        env = dict(os.environ, CARGO_NET_OFFLINE="true", CARGO_TARGET_DIR=MIRI_TARGET, GPA_REPLAY_DIR=d,
                   MIRIFLAGS="-Zmiri-disable-isolation -Zmiri-env-forward=GPA_REPLAY_DIR", RUSTFLAGS="--cfg gpa_verif")
        # cargo-miri does not notice edits of tests/replay.rs itself (it does notice edits under /repo): drop the shim's fingerprints
        import glob
        for fp in glob.glob(os.path.join(MIRI_TARGET, "miri", "*", "debug", ".fingerprint", "gpa-shim-*")):
            shutil.rmtree(fp, ignore_errors=True)
        # no test-name arguments: the agent sources parse the process arguments with clap; a test runs iff its corpus file exists
        cmd = ["cargo", "+nightly", "miri", "test", "--offline", "-p", "gpa-shim", "--test", "replay"]
        p = subprocess.run(cmd, env=env, cwd=os.path.join(common.VERIF, "rust"), stdout=subprocess.PIPE, stderr=subprocess.STDOUT, timeout=timeout)
        out = p.stdout.decode(errors="replace")
        replayed = {}
        for name in corpora:
            try:
                replayed[name] = int(open(os.path.join(d, name + ".done")).read())
            except (OSError, ValueError):
                replayed[name] = 0
        rep.coverage["miri_replayed"] = replayed
        if "Undefined Behavior" in out or "error: unsupported operation" in out and "REPLAY" not in out:
            rep.violation("miri-undefined-behaviour-or-unsupported", {"output": out[-3000:]})
        elif "REPLAY-MISMATCH" in out:
            rep.violation("miri-replay-mismatch", {"output": out[-3000:]})
        elif "panicked at" in out:
            rep.violation("miri-replay-panic", {"output": out[-3000:]})
        elif p.returncode != 0:
            rep.inconclusive.append("miri run failed: " + out[-800:])
        elif sum(replayed.values()) == 0:
            rep.inconclusive.append("miri replay executed no case")
    except subprocess.TimeoutExpired:
        rep.inconclusive.append("miri replay timed out")
    finally:
        shutil.rmtree(d, ignore_errors=True)

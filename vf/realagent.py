"""Launches the real azure-proxy-agent binary (hooks on) inside a sandbox."""
import json, os, signal, subprocess, time
from . import common


class RealAgent:
    def __init__(self, scratch, tag="agent", vdir=None, strace=None, env=None, poll_s=1, worker_threads=None, args=None):
        self.scratch = scratch
        self.dir = os.path.join(scratch, tag)
        os.makedirs(self.dir, exist_ok=True)
        with open("/etc/azure/proxy-agent.json", "w") as f:
            json.dump(common.default_config(poll_s), f)
        e = dict(os.environ)
        if vdir:
            os.makedirs(os.path.join(vdir, "audit"), exist_ok=True)
            e["GPA_VERIF_DIR"] = vdir
        if worker_threads:
            e["TOKIO_WORKER_THREADS"] = str(worker_threads)
        e["RUST_BACKTRACE"] = "0"
        e.update(env or {})
        self.stdout_path = os.path.join(self.dir, "stdout")
        self.stderr_path = os.path.join(self.dir, "stderr")
        self.trace_path = os.path.join(self.dir, "strace.out")
        cmd = [common.AGENT_BIN] + (args or [])
        if strace is not None:
            cmd = ["strace", "-f", "-o", self.trace_path] + strace + cmd
        self._out = open(self.stdout_path, "wb")
        self._err = open(self.stderr_path, "wb")
        self.proc = subprocess.Popen(cmd, env=e, stdin=subprocess.DEVNULL, stdout=self._out, stderr=self._err, cwd=self.dir)

    def alive(self):
        return self.proc.poll() is None

    def wait_exit(self, timeout):
        try:
            self.proc.wait(timeout=timeout)
            return True
        except subprocess.TimeoutExpired:
            return False

    def kill(self):
        if self.alive():
            # kill the whole tree (strace + agent)
            try:
                subprocess.run(["pkill", "-KILL", "-f", common.AGENT_BIN], stdout=subprocess.DEVNULL, stderr=subprocess.DEVNULL)
            except Exception:
                pass
            try:
                self.proc.kill()
            except Exception:
                pass
        try:
            self.proc.wait(timeout=5)
        except Exception:
            pass
        self._out.close()
        self._err.close()

    def stdout(self):
        try:
            return open(self.stdout_path, "rb").read()
        except OSError:
            return b""

    def stderr(self):
        try:
            return open(self.stderr_path, "rb").read()
        except OSError:
            return b""

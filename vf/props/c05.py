"""C05 - Proxy-owned headers cannot be spoofed or duplicated by the client."""
import email.utils, time, calendar
from .. import common, sandbox, wproxy, rawhttp, gen_http
from ..oracles import sig

OWNED = ["x-ms-azure-host-claims", "x-ms-azure-host-date", "x-ms-azure-host-authorization"]


def casemix(r, s):
    return "".join(c.upper() if r.random() < 0.5 else c for c in s)


def worker(args, scratch):
    r = common.rng("c05", args["shard"], args["tier"])
    res = {"evaluations": 0, "nontrivial": [], "samples": [], "counts": {}, "violations": []}
    cnt = res["counts"]

    def bump(k, n=1):
        cnt[k] = cnt.get(k, 0) + n
    def handler(name, req):
        if (req.header("x-vf-id") or b"").endswith(b"-hca"):
            return {"status": 200, "body": b"bye", "close": True}      # answers, then closes its side without saying so
        return wproxy.World.default_handler(name, req)
    w = wproxy.World(scratch, handler=handler)
    try:
        callers = [w.identity("root", "helper", []), w.identity("alice", "tool", []), w.identity("gidzero", "x", [])]
        keys = {}
        import threading
        slow_results = []

        def slow_keepalive(ci):
            # one keep-alive connection, several requests with seconds passing in between: each must carry the proxy's CURRENT time
            try:
                who = callers[ci % len(callers)]
                c = w.open("other", who)
                for k in range(3):
                    vid = "c05-slow-%d-%d-%d" % (args["shard"], ci, k)
                    t0 = time.time()
                    c.send(rawhttp.build_request("GET", "/slow/%d" % k, [("x-vf-id", vid), ("x-ms-azure-host-date", "Mon, 01 Jan 2001 00:00:00 GMT")]))
                    c.read_response()
                    slow_results.append((vid, t0, time.time(), who))
                    if k < 2:
                        time.sleep(3.2)
                c.close()
            except Exception as e:  # noqa
                slow_results.append(("error", repr(e), 0, None))
        slow_threads = [threading.Thread(target=slow_keepalive, args=(i,)) for i in range(3)]
        for t in slow_threads:
            t.start()
        for n in range(args["requests"]):
            if n % 97 == 0:
                if r.random() < 0.7:
                    guid = "cccccccc-0000-4000-8000-%012x" % (args["shard"] * 100000 + n)
                    keys[guid] = "%064x" % r.getrandbits(256)
                    w.key(guid, keys[guid])
                    latched = True
                    cur_guid = guid
                else:
                    w.shim.call("clear_key")
                    latched = False
                    cur_guid = None
                # now and then the rules of an endpoint deny everything in AUDIT mode: such requests are relayed like allowed ones, and
                # must be stamped like them
                for ep in ("imds", "wireserver", "hostga"):
                    w.rules(ep, {"defaultAccess": "deny", "mode": "audit", "id": "c05-audit-%d" % n, "rules": {"privileges": [], "roles": [], "identities": [], "roleAssignments": []}} if r.random() < 0.4 else None)
                bump("policy_changes")
            vid = "c05-%d-%d" % (args["shard"], n)
            who = r.choice(callers)
            dest = r.choice(["imds", "other", "imds", "wireserver", "hostga"]) if who.elevated else r.choice(["imds", "other"])
            spoofs = []
            hs = gen_http.headers(r, 2)
            for name in OWNED:
                for k in range(r.choice([0, 0, 1, 1, 2, 3])):
                    val = "SPOOF-%s-%d" % (vid, len(spoofs))
                    if name.endswith("claims") and r.random() < 0.5:
                        val = '{ "isRoot": "true"}' if r.random() < 0.7 else '{ "isRoot": "true"}' + " SPOOF-%s-%d" % (vid, len(spoofs))
                    if name.endswith("date") and r.random() < 0.5:
                        val = "Mon, 01 Jan 2001 00:00:00 GMT"
                    if name.endswith("authorization") and r.random() < 0.5:
                        # a plausible forgery; half of them name the key that IS latched at the moment (a key id is no secret)
                        val = "Azure-HMAC-SHA256 %s " % (cur_guid if cur_guid and r.random() < 0.5 else "00000000-0000-0000-0000-000000000000") + "ab" * 32
                    hs.append((casemix(r, name), val))
                    spoofs.append((name, val))
            if r.random() < 0.12:
                # the client nominates the proxy-owned headers as hop-by-hop headers of ITS connection: the proxy's own copies on the
                # upstream leg are not the client's to remove
                hs.append((casemix(r, "connection"), ", ".join(["keep-alive"] + [casemix(r, nme) for nme in OWNED if r.random() < 0.8])))
                cnt["requests_nominating_owned_headers_in_connection_header"] = cnt.get("requests_nominating_owned_headers_in_connection_header", 0) + 1
            r.shuffle(hs)
            hs.append(("x-vf-id", vid))
            method, target = r.choice([("GET", "/a?b=1"), ("POST", "/x"), ("PUT", "/vmAgentLog"), ("POST", "/machine/?comp=telemetrydata"), ("GET", "/metadata/instance")])
            body = gen_http.body(r, 200) if method != "GET" else b""
            t_send = time.time()
            conn = w.open(dest, who)
            try:
                raw_req = rawhttp.build_request(method, target, hs, body)
                if body and r.random() < 0.15:
                    # chunked upload with a trailer section that names the proxy-owned headers (any letter case): trailer fields are not
                    # header fields of the relayed request
                    raw_req = rawhttp.build_request(method, target, hs + [("Trailer", "x-ms-azure-host-claims, x-ms-azure-host-date")], body, chunked=[max(1, len(body) // 2)] * 3)
                    assert raw_req.endswith(b"0\r\n\r\n")
                    raw_req = raw_req[:-2] + casemix(r, "x-ms-azure-host-claims").encode() + b': { "isRoot": "true"}\r\n' + casemix(r, "x-ms-azure-host-date").encode() + b": Mon, 01 Jan 2001 00:00:00 GMT\r\n\r\n"
                    bump("chunked_requests_with_owned_headers_in_the_trailer")
                conn.send(raw_req)
                resp = conn.read_response(method.encode())
            except Exception as e:  # noqa
                if common.is_timeout(e):
                    res.setdefault("inconclusive", []).append("client socket watchdog (60 s) fired while waiting for the proxy; not a verdict") if not res.get("inconclusive") else None
                else:
                    res["violations"].append(["no-response", {"id": vid, "err": repr(e)}])
                conn.close()
                continue
            conn.close()
            t_recv = time.time()
            res["evaluations"] += 1
            ups = w.upstream(vid)
            if resp.status != 200 or len(ups) != 1:
                res["violations"].append(["not-relayed", {"id": vid, "status": resp.status, "dest": dest, "user": who.user}])
                continue
            u = ups[0]
            wit = {"id": vid, "user": who.user, "elevated": who.elevated, "dest": dest, "method": method, "target": target, "latched": latched,
                   "client_headers": [[k, v] for k, v in hs], "received_head": u.raw_head.decode("latin-1")}
            claims = u.headers_named("x-ms-azure-host-claims")
            dates = u.headers_named("x-ms-azure-host-date")
            auths = u.headers_named("x-ms-azure-host-authorization")
            exp_claims = ('{ "isRoot": "%s"}' % ("true" if who.elevated else "false")).encode()
            if len(claims) != 1:
                res["violations"].append(["claims-header-count-%d" % len(claims), wit])
            elif claims[0] != exp_claims:
                res["violations"].append(["claims-header-wrong-value", wit])
            if len(dates) != 1:
                res["violations"].append(["date-header-count-%d" % len(dates), wit])
            else:
                try:
                    ts = calendar.timegm(email.utils.parsedate(dates[0].decode()))
                    if not (t_send - 2 <= ts <= t_recv + 2):
                        res["violations"].append(["date-header-not-current", wit])
                except Exception:
                    res["violations"].append(["date-header-unparseable", wit])
            signed = latched and not sig.is_exempt(u.method, u.target)
            if signed:
                bump("signed_requests")
                if len(auths) != 1:
                    res["violations"].append(["authorization-header-count-%d-on-signed" % len(auths), wit])
                elif b"SPOOF" in auths[0] or b"00000000-0000-0000-0000-000000000000" in auths[0]:
                    res["violations"].append(["client-authorization-reached-host-on-signed", wit])
                else:
                    v, _ = sig.verify(u, keys)
                    if v not in ("ok", "ok-lenient"):
                        res["violations"].append(["signed-request-does-not-verify:%s" % v, wit])
            else:
                bump("unsigned_requests")
                if auths:
                    bump("client_authorization_passed_on_unsigned (allowed by the statement)")
            for name in OWNED[:2]:
                for v in u.headers_named(name):
                    if b"SPOOF" in v or v == b"Mon, 01 Jan 2001 00:00:00 GMT":
                        res["violations"].append(["spoofed-%s-reached-host" % name, wit])
            if spoofs:
                res["nontrivial"].append(common.sha([sorted(set(n for n, _ in spoofs)), len(spoofs), who.user, signed, method]))
                if len(res["samples"]) < 2:
                    res["samples"].append(wit)
            bump("spoofed_copies", len(spoofs))
        # ---- uploads whose body arrives 1.2-2.5 s after the head (a second boundary passes while the proxy waits for the body): still exactly one
        # date header, current for the request
        def slow_upload(k):
            who = callers[0]
            vid = "c05-%d-slowup%d" % (args["shard"], k)
            body = b"B" * 2000
            try:
                c = w.open("imds", who)
                head = rawhttp.build_request("POST", "/slow/upload?k=%d" % k, [("x-vf-id", vid), ("Content-Length", str(len(body)))], b"")
                t0 = time.time()
                c.send(head)
                time.sleep([1.2, 2.5, 0.0][k % 3])
                c.send(body)
                c.read_response(b"POST")
                c.close()
                slow_up.append((vid, t0, time.time()))
            except Exception as e:  # noqa
                if not common.is_timeout(e):
                    slow_up.append((vid, "error", repr(e)))
        slow_up = []
        ups_threads = [threading.Thread(target=slow_upload, args=(k,)) for k in range(6)]
        for t in ups_threads: t.start()
        for t in ups_threads: t.join()
        for vid, t0, t1 in slow_up:
            res["evaluations"] += 1
            if t0 == "error":
                res["violations"].append(["no-response", {"id": vid, "err": t1}]); continue
            for u in w.upstream(vid):
                dates = u.headers_named("x-ms-azure-host-date")
                bump("uploads_with_late_body")
                wit = {"id": vid, "received_head": u.raw_head.decode("latin-1"), "history": "request body sent %.1f s after the request head" % (t1 - t0)}
                if len(dates) != 1:
                    res["violations"].append(["date-header-count-%d" % len(dates), wit])
                if len(u.headers_named("x-ms-azure-host-claims")) != 1:
                    res["violations"].append(["claims-header-count-%d" % len(u.headers_named("x-ms-azure-host-claims")), wit])
            res["nontrivial"].append("slow-upload-" + vid[-1])
        # ---- one process, two connections whose kernel records disagree on the elevation bit (a daemon that dropped or gained privileges, a
        # recycled pid): the claims header announces what THIS connection's record says
        for k in range(10):
            who = callers[k % len(callers)]
            for flip, is_root in enumerate(([1, 0] if k % 2 else [0, 1])):
                vid = "c05-%d-flip%d-%d" % (args["shard"], k, flip)
                try:
                    c = w.open("other", who, uid=0 if is_root else 1001, is_root=is_root)
                    c.send(rawhttp.build_request("GET", "/flip/%d" % k, [("x-vf-id", vid)]))
                    c.read_response()
                    c.close()
                except Exception as e:  # noqa
                    continue
                res["evaluations"] += 1
                for u in w.upstream(vid):
                    cl = u.headers_named("x-ms-azure-host-claims")
                    want = ('{ "isRoot": "%s"}' % ("true" if is_root else "false")).encode()
                    bump("same_pid_other_elevation_connections")
                    if len(cl) != 1 or cl[0] != want:
                        res["violations"].append(["claims-header-wrong-value", {"id": vid, "pid": who.pid, "record_is_root": is_root, "claims_seen": [x.decode("latin-1") for x in cl],
                                                                                  "history": "second connection of the same pid whose record carries the other elevation bit" if flip else "first connection"}])
            res["nontrivial"].append("elevation-flip-%d" % (k % 4))
        # ---- the host closes its side of the connection without announcing it; the client goes on using its keep-alive connection and
        # supplies an authorization header of its own: whatever the proxy does with the later request (gateway error, re-connect), a request
        # that reaches the host carries the proxy's headers and the proxy's signature
        hc_guid = "cccccccc-1111-4000-8000-%012x" % args["shard"]
        keys[hc_guid] = "%064x" % r.getrandbits(256)
        w.key(hc_guid, keys[hc_guid])
        for k in range(8 if args["tier"] == "quick" else 60):
            who = callers[0]
            conn = w.open("imds", who)
            base = "c05-%d-hc%d" % (args["shard"], k)
            try:
                conn.send(rawhttp.build_request("GET", "/hc/first", [("x-vf-id", base + "-hca")]))
                conn.read_response()
                time.sleep(0.05 + 0.1 * r.random())
                spoof = "Azure-HMAC-SHA256 00000000-0000-0000-0000-000000000000 " + "ab" * 32
                conn.send(rawhttp.build_request(r.choice(["GET", "POST"]), "/hc/second?k=%d" % k, [("x-vf-id", base + "-hcb"), ("x-ms-azure-host-authorization", spoof),
                                                                                                     ("x-ms-azure-host-claims", '{ "isRoot": "true"}')]))
                try:
                    conn.read_response()
                except Exception:  # noqa
                    pass
            except Exception:  # noqa
                pass
            conn.close()
            res["evaluations"] += 1
            bump("requests_after_the_host_silently_closed_its_connection")
            for u in w.upstream(base + "-hcb"):
                bump("requests_after_silent_host_close_that_reached_the_host")
                wit = {"id": base + "-hcb", "received_head": u.raw_head.decode("latin-1"), "history": "host closed its connection after the previous response; client sent its own authorization header"}
                auths = u.headers_named("x-ms-azure-host-authorization")
                if len(auths) != 1:
                    res["violations"].append(["authorization-header-count-%d-on-signed" % len(auths), wit])
                elif b"00000000-0000-0000-0000-000000000000" in auths[0]:
                    res["violations"].append(["client-authorization-reached-host-on-signed", wit])
                elif sig.verify(u, keys)[0] not in ("ok", "ok-lenient"):
                    res["violations"].append(["signed-request-does-not-verify:%s" % sig.verify(u, keys)[0], wit])
                for nme in OWNED[:2]:
                    if len(u.headers_named(nme)) != 1:
                        res["violations"].append(["%s-header-count-%d" % ("claims" if nme.endswith("claims") else "date", len(u.headers_named(nme))), wit])
            res["nontrivial"].append("host-silent-close-%d" % (k % 8))
        for t in slow_threads:
            t.join()
        for vid, t0, t1, who in slow_results:
            if vid == "error":
                res["violations"].append(["slow-keepalive-exchange-failed", {"err": t0}]); continue
            res["evaluations"] += 1
            ups = w.upstream(vid)
            dates = ups[0].headers_named("x-ms-azure-host-date") if ups else []
            ok = False
            if len(dates) == 1:
                try:
                    ts = calendar.timegm(email.utils.parsedate(dates[0].decode()))
                    ok = t0 - 2 <= ts <= t1 + 2
                except Exception:
                    ok = False
            bump("requests_on_long_lived_keepalive_connections")
            res["nontrivial"].append("slow-" + vid)
            if not ok:
                res["violations"].append(["date-header-not-current", {"id": vid, "dates": [d.decode("latin-1") for d in dates], "sent_at": time.strftime("%H:%M:%S", time.gmtime(t0)),
                                                                      "history": "third/second request on a keep-alive connection, 3.2 s after the previous one"}])
        for p in w.shim.panics():
            res["violations"].append(["panic:%s" % p.get("location"), p])
    finally:
        w.close()
    return res


def minute_worker(args, scratch):
    """a quiet proxy serving one caller that polls once a minute: two requests exactly 60 s (thorough: also 120 s) apart, nothing in between;
    each must carry the proxy's CURRENT time"""
    res = {"evaluations": 0, "nontrivial": [], "samples": [], "counts": {}, "violations": []}
    w = wproxy.World(scratch)
    try:
        root = w.identity("root", "poller", [])
        w.key("cccccccc-2222-4000-8000-000000000001", "%064x" % common.rng("c05-minute").getrandbits(256))
        time.sleep(1.3 - (time.time() % 1.0))          # 0.3 s into a second
        t_first = time.time()
        for k, at in enumerate([0, 60] + ([180] if args["tier"] == "thorough" else [])):
            while time.time() < t_first + at:
                time.sleep(0.01)
            vid = "c05-minute-%d" % k
            t0 = time.time()
            c = w.open("imds", root)
            c.send(rawhttp.build_request("GET", "/metadata/instance?poll=%d" % k, [("x-vf-id", vid)]))
            c.read_response()
            c.close()
            t1 = time.time()
            res["evaluations"] += 1
            ups = w.upstream(vid)
            dates = ups[0].headers_named("x-ms-azure-host-date") if ups else []
            ok = False
            if len(dates) == 1:
                try:
                    ts = calendar.timegm(email.utils.parsedate(dates[0].decode()))
                    ok = t0 - 2 <= ts <= t1 + 2
                except Exception:  # noqa
                    ok = False
            res["counts"]["requests_of_a_once_a_minute_poller"] = res["counts"].get("requests_of_a_once_a_minute_poller", 0) + 1
            if not ok:
                res["violations"].append(["date-header-not-current", {"id": vid, "dates": [d.decode("latin-1") for d in dates], "sent_at": time.strftime("%H:%M:%S", time.gmtime(t0)),
                                                                      "history": "quiet proxy, request %d s after the previous one, nothing in between" % (at if k else 0)}])
            res["nontrivial"].append("minute-poll-%d" % k)
    finally:
        w.close()
    return res


def run(tier, rep):
    wproxy.build_helper()
    rep.coverage["rule"] = ("requests carrying 0-3 client copies each of x-ms-azure-host-claims/-date/-authorization in random letter case (unique SPOOF sentinels and plausible forgeries) "
                            "from elevated and non-elevated real callers, key latched or not, signed and exempt URLs; oracle over the header lines captured by the mock host: exactly one claims "
                            "line with the elevation bit of this connection's kernel record, exactly one RFC1123 date within [send-2s, receive+2s], no sentinel under those names; on signed "
                            "requests exactly one authorization line that verifies. non-trivial = request with >=1 spoofed copy; distinct by (spoofed names, count, user, signed, method)")
    shards = 6 if tier == "quick" else 16
    args = [{"shard": i, "tier": tier, "requests": 500 if tier == "quick" else 4000} for i in range(shards)]
    import concurrent.futures
    with concurrent.futures.ThreadPoolExecutor(max_workers=1) as ex:
        minute = ex.submit(sandbox.run, "vf.props.c05", "minute_worker", {"tier": tier}, 1200)       # 61 s of wall clock, alongside the shards
        for res in sandbox.run_many("vf.props.c05", "worker", args, workers=shards, timeout=1200 if tier == "quick" else 7200):
            rep.merge_worker(res)
        rep.merge_worker(minute.result())
    rep.assumptions += ["a client authorization header on a request the proxy does not sign may pass (the statement restricts only signed requests)"]

"""C19 - Disk usage by logs, events and rule dumps stays within configured bounds."""
import json, os, re, shutil, subprocess, tempfile, threading, time
from .. import common, shim as shimmod, gen_rbac

HEADER = 34   # bytes of the log line prefix added by RollingLogger::write


def listing(d):
    out = {}
    try:
        for n in os.listdir(d):
            p = os.path.join(d, n)
            try:
                if os.path.isfile(p):
                    out[n] = os.path.getsize(p)
            except OSError:
                pass     # renamed or removed while listing: not part of the snapshot
    except FileNotFoundError:
        pass
    return out


def logger_histories(sh, root, r, n_hist, rep_counts, viols, nontrivial, samples):
    for h in range(n_hist):
        d = os.path.join(root, "log%d" % h)
        limit = r.choice([256, 512, 1000, 4096, 8192])
        count = r.randrange(1, 7)
        name = r.choice(["ProxyAgent.log", "app", "ProxyAgent.Connection.log"])
        lid = "L%d" % h
        sh.call("logger_new", id=lid, dir=d, name=name, size=limit, count=count)
        rolls = 0
        restarts = 0
        nops = r.randrange(20, 200)
        pat = re.compile(r"^" + re.escape(os.path.splitext(name)[0] if name.endswith(".log") else name))
        prev = {}
        first_seen, prev_cur, max_write = {}, None, 0
        ops_log = []
        for i in range(nops):
            kind = r.random()
            if kind < 0.06:
                # restart: a new logger object (and every so often a new process) finds the files of the earlier run
                lid = "L%d_%d" % (h, i)
                sh.call("logger_new", id=lid, dir=d, name=name, size=limit, count=count)
                restarts += 1
                ops_log.append("restart")
                continue
            if kind < 0.8:
                size = r.choice([0, 1, 10, limit // 3, limit - HEADER - 1, limit, 2 * limit, 3 * limit, r.randrange(0, 3 * limit)])
                res = sh.call("logger_write", id=lid, message="m" * size)
                appended = size + HEADER + 1
                ops_log.append("write %d" % size)
            else:
                msgs = ["w" * r.randrange(0, limit) for _ in range(r.randrange(1, 5))]
                res = sh.call("logger_write", id=lid, many=msgs)
                appended = sum(len(m) + 1 for m in msgs)
                ops_log.append("write_many %s" % [len(m) for m in msgs])
            max_write = max(max_write, appended)
            if res and "err" in res:
                viols.append(["logger-write-error", {"err": res["err"], "limits": [limit, count]}]); break
            rep_counts["log_ops"] = rep_counts.get("log_ops", 0) + 1
            cur = listing(d)
            mine = {n: s for n, s in cur.items() if n.startswith(name.rsplit(".log", 1)[0]) and n.endswith(".log")}
            wit = {"limit": limit, "count": count, "name": name, "op": ops_log[-1], "op_index": i, "files": mine, "recent_ops": ops_log[-6:]}
            if len(mine) > count:
                viols.append(["log-file-count-exceeds-configured-count", wit]); break
            curname = name if name.endswith(".log") else name + ".log"
            bad = False
            for n, s in mine.items():
                if n == curname:
                    # the file being written: before this write it must have been below the limit (else it had to roll)
                    if s - appended >= limit and s > appended:
                        viols.append(["log-file-exceeds-limit-by-more-than-one-write", dict(wit, file=n, size=s, this_write=appended)]); bad = True
                elif n in first_seen:
                    if s != first_seen[n]:
                        viols.append(["archived-log-file-changed-size", dict(wit, file=n, size=s, was=first_seen[n])]); bad = True
                else:
                    first_seen[n] = s
                    # a freshly archived file is the previous current file: below the limit before its last write
                    if prev_cur is not None and s != prev_cur and s - appended != prev_cur:
                        pass
                    if s >= limit + max_write:
                        viols.append(["log-file-exceeds-limit-by-more-than-one-write", dict(wit, file=n, size=s, largest_write_so_far=max_write)]); bad = True
            if bad:
                break
            max_write = max(max_write, appended)
            prev_cur = mine.get(curname)
            if len(set(mine) - set(prev)) and prev:
                rolls += 1
            prev = mine
        if rolls >= count + 1 or restarts:
            nontrivial.append(common.sha(["log", limit, count, name, rolls > count, restarts > 0, nops // 50]))
        if len(samples) < 2:
            samples.append({"kind": "rolling log", "limit": limit, "count": count, "ops": ops_log[:8], "rolls": rolls, "restarts": restarts, "final_files": prev})
        rep_counts["log_rolls"] = rep_counts.get("log_rolls", 0) + rolls
        rep_counts["log_restarts"] = rep_counts.get("log_restarts", 0) + restarts


def dump_histories(sh, root, r, n_hist, rep_counts, viols, nontrivial, samples):
    for h in range(n_hist):
        d = os.path.join(root, "dump%d" % h)
        os.makedirs(d, exist_ok=True)
        cap = r.randrange(1, 6)
        if r.random() < 0.4:
            open(os.path.join(d, "AuthorizationRules_foreign.txt"), "w").write("x")   # similar name, not a dump
            open(os.path.join(d, "other.json"), "w").write("{}")
        seen_order = []
        nsteps = r.randrange(3, 25)
        # continuous observation of the directory (inotify): the number of dumps on disk is judged at every instant, not only between operations -
        # a kill at any moment must leave a directory within its bound
        ino = None
        if h % 3 == 0:
            ino = subprocess.Popen(["inotifywait", "-m", "-q", "-e", "create,moved_to,delete,moved_from", "--format", "%e %f", d], stdout=subprocess.PIPE, stderr=subprocess.DEVNULL)
            time.sleep(0.05)
        # the dumps share their directory with the rolling logs. Listing faults: an entry that cannot be stat'ed (dangling symlink) during
        # some steps, or files being renamed by a concurrent roller while the directory is listed. The bound must hold all the same
        # (whether a dump is written during the fault is not prescribed).
        fault = r.choice([None, None, "dangling-symlink", "concurrent-renames"])
        f_lo = r.randrange(0, nsteps); f_hi = r.randrange(f_lo, nsteps + 1)
        stop_ren = threading.Event()
        ren_thread = None
        for i in range(nsteps):
            faulty = fault is not None and f_lo <= i < f_hi
            if fault == "dangling-symlink":
                lp = os.path.join(d, "ProxyAgent.9.log")
                if faulty and not os.path.islink(lp):
                    os.symlink(os.path.join(d, "does-not-exist"), lp)
                elif not faulty and os.path.islink(lp):
                    os.unlink(lp)
            if fault == "concurrent-renames" and faulty and ren_thread is None:
                def roller(dd=d):
                    names = [os.path.join(dd, "Roll.%d.log" % k) for k in range(6)]
                    for nme in names[:5]:
                        open(nme, "w").write("x")
                    k = 0
                    while not stop_ren.is_set():
                        for j in range(5, 0, -1):
                            try:
                                os.rename(names[j - 1], names[j])
                            except OSError:
                                pass
                        try:
                            open(names[0], "w").write("x"); os.unlink(names[5])
                        except OSError:
                            pass
                        k += 1
                ren_thread = threading.Thread(target=roller); ren_thread.start()
            if fault == "concurrent-renames" and not faulty and ren_thread is not None and not stop_ren.is_set():
                stop_ren.set(); ren_thread.join()
            doc = {"imds": gen_rbac.gen_doc(r, dup_ok=False), "wireserver": gen_rbac.gen_doc(r, dup_ok=False)}
            before = sorted(n for n in listing(d) if re.match(r"^AuthorizationRules_.*\.json$", n))
            sh.call("rules_write_all", dir=d, max=cap, input=doc)
            after = sorted(n for n in listing(d) if re.match(r"^AuthorizationRules_.*\.json$", n))
            rep_counts["dump_ops"] = rep_counts.get("dump_ops", 0) + 1
            new = [n for n in after if n not in before]
            wit = {"cap": cap, "before": before, "after": after, "listing_fault": fault if faulty else None}
            if len(after) > cap:
                viols.append(["rule-dump-count-exceeds-cap" + (":during-listing-fault" if faulty else ""), wit]); break
            if faulty:
                rep_counts["dump_ops_during_listing_fault:%s" % fault] = rep_counts.get("dump_ops_during_listing_fault:%s" % fault, 0) + 1
                if not new:
                    rep_counts["dumps_skipped_during_listing_fault"] = rep_counts.get("dumps_skipped_during_listing_fault", 0) + 1
                    time.sleep(0.002)
                    continue
            if len(new) != 1:
                viols.append(["rule-dump-not-written", wit]); break
            removed = [n for n in before if n not in after]
            kept = [n for n in before if n in after]
            # age = the order in which this history saw the dumps appear (not their names): nothing that is kept may be older than something removed
            age = {n: i for i, n in enumerate(seen_order)}
            if removed and kept and all(n in age for n in removed + kept) and max(age[n] for n in removed) > min(age[n] for n in kept):
                viols.append(["rule-dump-removed-is-not-the-oldest", dict(wit, creation_order=seen_order[-8:])]); break
            seen_order.append(new[0])
            time.sleep(0.002)
        stop_ren.set()
        if ren_thread is not None:
            ren_thread.join()
        if ino is not None:
            time.sleep(0.05)
            ino.terminate()
            count, peak = 0, 0
            for line in ino.communicate()[0].decode(errors="replace").splitlines():
                ev_, _, name = line.partition(" ")
                if not re.match(r"^AuthorizationRules_.*\.json$", name):
                    continue
                if "CREATE" in ev_ or "MOVED_TO" in ev_:
                    count += 1
                elif "DELETE" in ev_ or "MOVED_FROM" in ev_:
                    count -= 1
                peak = max(peak, count)
            rep_counts["dump_directories_watched_continuously"] = rep_counts.get("dump_directories_watched_continuously", 0) + 1
            if peak > cap:
                viols.append(["rule-dump-count-exceeds-cap:transiently", {"cap": cap, "peak_number_of_dumps_on_disk": peak, "history": "inotify event stream of the dump directory"}])
        others = [n for n in listing(d) if not re.match(r"^AuthorizationRules_.*\.json$", n)]
        nontrivial.append(common.sha(["dump", cap, len(seen_order) > cap, fault]))
        if len(samples) < 4:
            samples.append({"kind": "rule dumps", "cap": cap, "writes": len(seen_order), "final": sorted(listing(d))})


def event_histories(r, n_hist, rep_counts, viols, nontrivial, samples, root):
    """event directory cap: needs one process per history (the event logger is a process-wide singleton)"""
    for h in range(n_hist):
        d = os.path.join(root, "ev%d" % h)
        cap = r.randrange(1, 6)
        sh = shimmod.Shim(os.path.join(root, "evshim%d" % h), runtime="multi:2")
        try:
            sh.call("init", log_dir=os.path.join(root, "evlogs%d" % h), log_level="Info")
            pre = r.randrange(0, cap + 2)
            os.makedirs(d, exist_ok=True)
            for k in range(min(pre, cap)):   # files left by an earlier run with the same settings (never more than the cap)
                # an earlier run that was killed inside an event-file write leaves the temp file of that write behind (never consumed by the reader)
                leftover_tmp = r.random() < 0.35
                open(os.path.join(d, ("%d.tmp" if leftover_tmp else "%d.json") % (1000 + k)), "w").write("[]")
                if leftover_tmp:
                    rep_counts["preexisting_tmp_files_of_a_killed_writer"] = rep_counts.get("preexisting_tmp_files_of_a_killed_writer", 0) + 1
            sh.call("event_logger_start", dir=d, interval_ms=5, max_files=cap)
            maxseen = 0
            for burst in range(r.randrange(3, 12)):
                nmsg = r.choice([1, 5, 50, 1500])   # 1500 > the queue bound
                for k in range(nmsg):
                    sh.call_async("write_event", message="e%d-%d " % (burst, k) + "x" * r.randrange(0, 200), level=r.choice(["Info", "Info", "Warn", "Error", "Trace"]))
                sh.call("ping")
                for _ in range(6):
                    time.sleep(0.004)
                    files = listing(d)
                    nfiles = len(files)
                    maxseen = max(maxseen, nfiles)
                    rep_counts["event_dir_observations"] = rep_counts.get("event_dir_observations", 0) + 1
                    if nfiles > cap:
                        viols.append(["event-directory-exceeds-cap", {"cap": cap, "files": sorted(files), "preexisting": min(pre, cap)}]); break
                if r.random() < 0.3 and listing(d):
                    # the reader consumed one file
                    os.unlink(os.path.join(d, sorted(listing(d))[0]))
            # shutdown with events still queued (the final flush), possibly with the directory already at its cap
            for k in range(r.choice([1, 20, 300])):
                sh.call_async("write_event", message="shutdown-%d" % k)
            sh.call("ping")
            sh.call("event_logger_stop")
            for _ in range(12):
                time.sleep(0.005)
                nfiles = len(listing(d))
                maxseen = max(maxseen, nfiles)
                rep_counts["event_dir_observations"] = rep_counts.get("event_dir_observations", 0) + 1
                if nfiles > cap:
                    viols.append(["event-directory-exceeds-cap", {"cap": cap, "files": sorted(listing(d)), "when": "after stop() with queued events"}]); break
            nontrivial.append(common.sha(["event", cap, maxseen >= cap, pre]))
            if len(samples) < 6:
                samples.append({"kind": "event directory", "cap": cap, "preexisting": min(pre, cap), "max_files_seen": maxseen})
            for p in sh.panics():
                viols.append(["panic:%s" % p.get("location"), p])
        finally:
            sh.close()


def run(tier, rep):
    rep.coverage["rule"] = ("real RollingLogger / AuthorizationRulesForLogging::write_all / event_logger::start through the shim on scratch directories with small limits (size 256B-8KiB, count 1-6, caps 1-5); "
                            "histories = PRNG sequences of writes of 0..3x limit (write and write_many), restarts that find the files of the earlier run (same settings), event bursts above the queue bound, rule-set changes, "
                            "foreign files with similar names; the directory is listed after every operation (event directory: polled while the logger runs). invariants: files of the log <= count; no file larger than "
                            "limit + last write; event files <= cap; rule dumps <= cap and the removed ones are the oldest in the observed creation order (event directory: leftover .tmp files of a killed writer count as files), also while the shared directory cannot be listed cleanly (dangling symlink, files renamed by a concurrent roller). non-trivial = history that rolls more than count times or restarts, or reaches a cap; "
                            "distinct by (kind, limits, pattern class)")
    r = common.rng("c19", tier)
    root = tempfile.mkdtemp(prefix="gpa-verif.", dir="/var/tmp")
    counts, viols, nontrivial, samples = {}, [], [], []
    try:
        nshim = 8
        per = 40 if tier == "quick" else 1200
        threads = []
        shims = []
        def work(i):
            sh = shimmod.Shim(os.path.join(root, "s%d" % i), runtime="multi:2")
            shims.append(sh)
            sh.call("init", log_dir=os.path.join(root, "s%d" % i, "logs"), log_level="Info")
            rr = common.rng("c19", tier, i)
            c, v, n, s = {}, [], [], []
            logger_histories(sh, os.path.join(root, "w%d" % i), rr, per, c, v, n, s)
            dump_histories(sh, os.path.join(root, "w%d" % i), rr, per // 4, c, v, n, s)
            event_histories(rr, 3 if tier == "quick" else 40, c, v, n, s, os.path.join(root, "w%d" % i))
            for p in sh.panics():
                v.append(["panic:%s" % p.get("location"), p])
            sh.close()
            rep.merge_worker({"evaluations": per + per // 4 + (3 if tier == "quick" else 40), "nontrivial": n, "samples": s, "counts": c, "violations": v})
        ts = [threading.Thread(target=work, args=(i,)) for i in range(nshim)]
        for t in ts: t.start()
        for t in ts: t.join()
    finally:
        shutil.rmtree(root, ignore_errors=True)
    rep.assumptions += ["concurrent writers are not judged (the statement quantifies over histories); files left by earlier runs obey the same settings",
                        "a log line's size = message + 34-byte header + newline"]

"""C15 - Request bodies above the size limit are refused and never relayed."""
import hashlib, socket, time
from .. import common, sandbox, wproxy, rawhttp

LOW = 100 * 1024
HIGH = 100 * 1024 * 1024
EXEMPT = [("PUT", "/vmAgentLog"), ("POST", "/machine/?comp=telemetrydata"), ("PUT", "/VMAGENTLOG"), ("POST", "/Machine/?Comp=TelemetryData"), ("PUT", "/vmagentlog")]
NEAR_MISS = [("GET", "/vmagentlog"), ("POST", "/vmAgentLog"), ("PUT", "/vmagentlog/x"), ("PUT", "/vmAgentLog?x=1"), ("POST", "/machine/?comp=telemetrydata&x=1"),
             ("PUT", "/machine/?comp=telemetrydata"), ("POST", "/machine?comp=telemetrydata"), ("POST", "/a"), ("PUT", "/b?c=d"), ("PATCH", "/x")]


def pattern(n, salt):
    blk = hashlib.sha256(salt.encode()).digest() * 128
    return (blk * (n // len(blk) + 1))[:n]


def worker(args, scratch):
    r = common.rng("c15", args["shard"], args["tier"])
    res = {"evaluations": 0, "nontrivial": [], "samples": [], "counts": {}, "violations": []}
    cnt = res["counts"]
    got_hash = {}

    def handler(name, req):
        vid = (req.header("x-vf-id") or b"").decode()
        got_hash[vid] = (len(req.body), hashlib.sha256(req.body).hexdigest())
        req.body = b""   # do not keep 100 MiB bodies around
        return {"status": 200, "body": b"ok"}
    w = wproxy.World(scratch, runtime="multi:4", handler=handler, log_level="Info")
    try:
        root = w.identity("root", "helper", [])
        # a script is a list of cases sent on ONE keep-alive connection (a single case = its own connection)
        scripts = [[c] for c in args["cases"]] + args.get("scripts", [])
        flat = []
        for si, sc in enumerate(scripts):
            for pi, c in enumerate(sc):
                flat.append((si, pi, len(sc), c))
        conn = None
        for n, (si, pi, slen, (cls, method, target, decl, length)) in enumerate(flat):
            vid = "c15-%d-%d" % (args["shard"], n)
            limit = HIGH if cls == "exempt" else LOW
            over = length > limit
            if pi == 0:
                conn = w.open("wireserver", root, timeout=180)
            hs = [("x-vf-id", vid)]
            status, early = None, False
            try:
                if decl == "cl":
                    head = rawhttp.build_request(method, target, hs + [("Content-Length", str(length))], b"")
                    conn.send(head)
                    if over:
                        # declared oversize: the verdict must come without a single body byte being sent
                        conn.s.settimeout(5)
                        try:
                            resp = conn.read_response(method.encode())
                            status, early = resp.status, True
                        except (socket.timeout, rawhttp.ParseError):
                            conn.s.settimeout(180)
                            body = pattern(length, vid)
                            conn.send(body)
                            status = conn.read_response(method.encode()).status
                    else:
                        body = pattern(length, vid)
                        conn.send(body)
                        status = conn.read_response(method.encode()).status
                else:
                    body = pattern(length, vid)
                    head = rawhttp.build_request(method, target, hs, b"", chunked=None)
                    head = head.replace(b"Content-Length: 0\r\n", b"").replace(b"\r\n\r\n", b"\r\nTransfer-Encoding: chunked\r\n\r\n", 1)
                    conn.send(head)
                    csz = r.choice([4096, 65536, 1 << 20])
                    pos = 0
                    try:
                        while pos < len(body):
                            part = body[pos:pos + csz]
                            conn.s.sendall(b"%x\r\n" % len(part) + part + b"\r\n")
                            pos += len(part)
                        conn.s.sendall(b"0\r\n\r\n")
                    except OSError:
                        early = True   # proxy closed while we were still sending: fine for an oversize body
                    status = conn.read_response(method.encode()).status
            except Exception as e:  # noqa
                status = "error:%r" % (e,)
            if pi == slen - 1:
                conn.close()
            if common.is_timeout(status):
                if not res.get("inconclusive"):
                    res.setdefault("inconclusive", []).append("client socket watchdog fired while waiting for the proxy; not a verdict")
                cnt["client_watchdog_firings"] = cnt.get("client_watchdog_firings", 0) + 1
                if cnt["client_watchdog_firings"] >= 2:
                    break       # do not spend 3 minutes on every remaining case
                continue
            res["evaluations"] += 1
            relayed = got_hash.get(vid)
            wit = {"id": vid, "class": cls, "method": method, "target": target, "declared_by": decl, "length": length, "limit": limit, "status": status,
                   "relayed": relayed, "answered_before_body": early, "position_on_keep_alive_connection": pi,
                   "earlier_requests_on_this_connection": [list(c[:3]) + [c[4]] for c in scripts[si][:pi]]}
            if slen > 1:
                cnt["requests_on_shared_keep_alive_connections"] = cnt.get("requests_on_shared_keep_alive_connections", 0) + 1
                if pi > 0 and scripts[si][pi - 1][0] != cls:
                    res["nontrivial"].append(common.sha(["class-switch", scripts[si][pi - 1][0], cls, decl, over]))
            key = "%s:%s:%s" % (cls, decl, "over" if over else "within")
            cnt[key] = cnt.get(key, 0) + 1
            if over:
                if relayed is not None or any(m.raw_contains(vid.encode()) for m in w.mocks.values()):
                    res["violations"].append(["oversize-body-relayed:%s:%s" % (cls, decl), wit])
                if not (isinstance(status, int) and 400 <= status < 500):
                    res["violations"].append(["oversize-body-not-4xx:%s:%s" % (cls, decl), wit])
            else:
                want = (length, hashlib.sha256(pattern(length, vid)).hexdigest())
                if status != 200 or relayed != want:
                    res["violations"].append(["body-within-limit-not-relayed-intact:%s:%s" % (cls, decl), wit])
            if abs(length - limit) <= 4096:
                res["nontrivial"].append(common.sha([cls, decl, length - limit, method, target]))
            if len(res["samples"]) < 3 and over:
                res["samples"].append(wit)
        for p in w.shim.panics():
            res["violations"].append(["panic:%s" % p.get("location"), p])
    finally:
        w.close()
    return res


def make_cases(tier, r):
    cases = []
    lens_low = [0, 1, LOW - 4096, LOW - 1, LOW, LOW + 1, LOW + 2, LOW + 4096, 2 * LOW, 5 * LOW]
    for method, target in NEAR_MISS:
        for decl in ("cl", "chunked"):
            for ln in (lens_low if tier == "thorough" else [LOW - 1, LOW, LOW + 1, LOW + 4096]):
                cases.append(("normal", method, target, decl, ln))
    for decl in ("cl", "chunked"):
        for ln in lens_low:
            cases.append(("normal", "POST", "/upload?i=%d" % ln, decl, ln))
    # exempt class: cheap cases (declared oversize is decided before any body byte; small bodies; bodies just above the LOW limit must pass)
    for method, target in EXEMPT:
        for ln in (0, LOW + 1, 3 * LOW, 1 << 20):
            cases.append(("exempt", method, target, r.choice(["cl", "chunked"]), ln))
        cases.append(("exempt", method, target, "cl", HIGH + 1))
        cases.append(("exempt", method, target, "cl", HIGH + 4096))
        cases.append(("exempt", method, target, "cl", 2 * HIGH))
    heavy = []
    heavy.append(("exempt", "PUT", "/vmAgentLog", "cl", HIGH))
    heavy.append(("exempt", "PUT", "/vmAgentLog", "chunked", HIGH + 1))      # the limit is crossed 100 MiB into the stream
    if tier == "thorough":
        heavy += [("exempt", "POST", "/machine/?comp=telemetrydata", "cl", HIGH), ("exempt", "PUT", "/vmAgentLog", "chunked", HIGH),
                  ("exempt", "PUT", "/vmAgentLog", "chunked", HIGH + 1), ("exempt", "POST", "/machine/?comp=telemetrydata", "chunked", HIGH + 4096),
                  ("exempt", "PUT", "/vmAgentLog", "cl", HIGH - 1), ("exempt", "PUT", "/vmAgentLog", "chunked", HIGH - 4096)]
    return cases, heavy


def make_scripts(tier, r):
    """requests of both classes on one keep-alive connection: the limit belongs to the request, not to the connection. An over-limit
    request is always the last one of its script (the proxy may close the connection after refusing)."""
    small_exempt = [("exempt", m, t, d, n) for (m, t) in EXEMPT[:2] for d in ("cl", "chunked") for n in (10, LOW + 1)]
    small_normal = [("normal", "POST", "/upload?s=1", "cl", 10), ("normal", "PUT", "/b?c=d", "chunked", LOW), ("normal", "POST", "/a", "cl", 0)]
    over_normal = [("normal", "POST", "/upload?o=1", d, n) for d in ("cl", "chunked") for n in (LOW + 1, 3 * LOW)]
    big_exempt = [("exempt", m, t, d, n) for (m, t) in EXEMPT[:2] for d in ("cl", "chunked") for n in (LOW + 1, 2 * LOW, 1 << 20)]
    scripts = []
    for _ in range(24 if tier == "quick" else 200):
        kind = r.randrange(3)
        if kind == 0:      # exempt first, then an over-limit ordinary request
            scripts.append([r.choice(small_exempt) for _ in range(r.randrange(1, 3))] + [r.choice(over_normal)])
        elif kind == 1:    # ordinary first, then an exempt upload above the ordinary limit (must pass)
            scripts.append([r.choice(small_normal) for _ in range(r.randrange(1, 3))] + [r.choice(big_exempt)])
        else:              # alternating
            scripts.append([r.choice(small_normal), r.choice(big_exempt), r.choice(small_normal), r.choice(small_exempt), r.choice(over_normal)])
    return scripts


def run(tier, rep):
    wproxy.build_helper()
    rep.coverage["rule"] = ("class in {normal 100KiB, exempt 100MiB (PUT /vmAgentLog, POST /machine/?comp=telemetrydata and case variants)} x declaration in {Content-Length, chunked} x length in "
                            "{0,1,limit-4096,limit-1,limit,limit+1,limit+2,limit+4096,2x,5x} x method/URL near-misses that must fall in the normal class; authorized elevated caller so only the size decides. "
                            "oracle: over the limit -> 4xx and zero bytes of it at the mock; within -> relayed with identical length and SHA-256. declared oversize bodies are judged header-first. "
                            "keep-alive scripts mix both classes on one connection (exempt then over-limit ordinary, ordinary then large exempt, alternating); a chunked exempt upload crosses 100 MiB mid-stream. "
                            "non-trivial = length within 4096 of a limit or a class switch on a connection; distinct by (class, declaration, offset from limit, method, URL)")
    r = common.rng("c15", tier)
    cases, heavy = make_cases(tier, r)
    r.shuffle(cases)
    shards = 8
    scripts = make_scripts(tier, r)
    args = [{"shard": i, "tier": tier, "cases": cases[i::shards], "scripts": scripts[i::shards]} for i in range(shards)]
    args += [{"shard": 100 + i, "tier": tier, "cases": [h]} for i, h in enumerate(heavy)]
    for res in sandbox.run_many("vf.props.c15", "worker", args, workers=6, timeout=3000):
        rep.merge_worker(res)

"""C07 - Attribution is single-use: a connection never inherits another's identity."""
import json, threading, time
from .. import common, sandbox, wproxy, rawhttp, standin

USERS = ["root", "alice", "bob", "gidzero"]


PROGS = ["proga", "progb", "progc"]


def user_rules():
    """/u/<user>/... only for that user; /p/<program>/... only for a process running that program (by process name)"""
    privs = [{"name": "p_" + u, "path": "/u/" + u} for u in USERS] + [{"name": "pp_" + g, "path": "/p/" + g} for g in PROGS]
    return {"defaultAccess": "deny", "mode": "enforce", "id": "c07",
            "rules": {"privileges": privs, "roles": [{"name": "r_" + u, "privileges": ["p_" + u]} for u in USERS] + [{"name": "rp_" + g, "privileges": ["pp_" + g]} for g in PROGS],
                      "identities": [{"name": "i_" + u, "userName": u} for u in USERS] + [{"name": "ip_" + g, "processName": g} for g in PROGS],
                      "roleAssignments": [{"role": "r_" + u, "identities": ["i_" + u]} for u in USERS] + [{"role": "rp_" + g, "identities": ["ip_" + g]} for g in PROGS]}}


def summaries_by_url(path):
    out = {}
    try:
        with open(path, "rb") as f:
            for line in f:
                line = line.strip()
                if not line.startswith(b"{") or b'"clientPort"' not in line:
                    continue
                try:
                    j = json.loads(line)
                except Exception:
                    continue
                out.setdefault(j.get("url"), []).append(j)
    except FileNotFoundError:
        pass
    return out


def worker(args, scratch):
    r = common.rng("c07", args["shard"], args["tier"])
    res = {"evaluations": 0, "nontrivial": [], "samples": [], "counts": {}, "violations": []}
    cnt = res["counts"]
    lock = threading.Lock()

    def bump(k, n=1):
        with lock:
            cnt[k] = cnt.get(k, 0) + n

    def viol(sig, wit):
        with lock:
            res["violations"].append([sig, wit])
    env = None
    if args.get("delays"):
        env = {"GPA_VERIF_DELAY": "get_key:300:2000", "GPA_VERIF_DELAY_SEED": str(args["shard"] + 1)}
    def handler(name, req):
        if (req.header("x-vf-id") or b"").endswith(b"-hca"):
            return {"status": 200, "body": b"bye", "close": True}      # answers, then closes its side without saying so
        return wproxy.World.default_handler(name, req)
    w = wproxy.World(scratch, runtime="multi:8", env=env, handler=handler)
    try:
        idents = []
        for i in range(args["identities"]):
            u = USERS[i % len(USERS)]
            idents.append(w.identity(u, "proc%d" % i, ["--n", str(i)]))
        w.rules("imds", user_rules())
        expectations = {}   # url -> (ident index, expected status)

        def do_requests(conn, ident, tag, count, expect_unattributed=False, rr=None):
            rr = rr or r
            for k in range(count):
                target_user = rr.choice(USERS)
                vid = "%s-%d" % (tag, k)
                url = "/u/%s/%s" % (target_user, vid)
                exp = 421 if expect_unattributed else (200 if target_user == ident.user else 403)
                with lock:
                    expectations[url] = (ident, exp, expect_unattributed)
                try:
                    conn.send(rawhttp.build_request("GET", url, [("x-vf-id", vid)]))
                    resp = conn.read_response()
                except Exception as e:  # noqa
                    if k > 0 and not common.is_timeout(e):
                        # the agent closed the connection after an earlier answer on it (e.g. 'Connection: close' on a refusal): the
                        # statement promises no keep-alive; what matters is that nothing of this request went anywhere
                        bump("connection_closed_by_the_agent_after_an_answer")
                        if w.upstream(vid):
                            viol("refused-request-relayed", {"url": url, "note": "no response, yet relayed"})
                        return
                    raise
                with lock:
                    res["evaluations"] += 1
                ups = w.upstream(vid)
                wit = {"url": url, "conn_identity": {"user": ident.user, "pid": ident.pid, "uid": ident.uid}, "status": resp.status, "expected": exp,
                       "upstream": [x.raw_head.decode("latin-1") for x in ups]}
                # 'refused': the statement names no status - any HTTP error status, and nothing upstream (judged below)
                if (resp.status != 200) if exp == 200 else not (400 <= resp.status < 600):
                    viol("wrong-outcome-for-connection-identity" if not expect_unattributed else "reused-port-without-record-not-refused", wit)
                if exp == 200:
                    if len(ups) != 1:
                        viol("allowed-request-not-relayed-once", wit)
                    else:
                        want = ('{ "isRoot": "%s"}' % ("true" if ident.elevated else "false")).encode()
                        if ups[0].header("x-ms-azure-host-claims") != want:
                            viol("upstream-claims-of-another-connection", wit)
                elif ups:
                    viol("refused-request-relayed", wit)

        # ---- histories 1 and 2: immediate source-port reuse
        for pair in range(args["pairs"]):
            a = r.choice(idents)
            conn = w.open("imds", a)
            port = conn.src_port
            tag = "c07-%d-p%d" % (args["shard"], pair)
            do_requests(conn, a, tag + "-A", r.randrange(1, 5))
            if standin.present(w.vdir, port):
                viol("record-not-consumed-at-accept", {"port": port})
            conn.close(abort=True)
            fresh = r.random() < 0.5
            b = r.choice([i for i in idents if i.user != a.user])
            try:
                if fresh:
                    connb = w.open("imds", b, src_port=port)
                else:
                    connb = w.open(record=False, src_port=port)
            except OSError as e:
                bump("port_reuse_bind_failed")
                continue
            try:
                do_requests(connb, b if fresh else a, tag + "-B", r.randrange(1, 4), expect_unattributed=not fresh)
            except Exception as e:  # noqa
                if common.is_timeout(e):
                    res.setdefault("inconclusive", []).append("client socket watchdog (60 s) fired while waiting for the proxy; not a verdict") if not res.get("inconclusive") else None
                else:
                    viol("no-response-on-reused-port", {"port": port, "err": repr(e)})
            connb.close()
            bump("port_reuse_fresh_record" if fresh else "port_reuse_no_record")
            with lock:
                res["nontrivial"].append(common.sha(["reuse", fresh, a.user, b.user, pair % 7]))
        # ---- history 9: the recorded destination closes its side of the connection; the client goes on with a request in absolute form that
        # names ANOTHER host: whatever the proxy does (gateway error, re-connect), nothing of this connection goes anywhere but to the
        # destination the kernel recorded for it
        for k in range(args.get("absolute_form_histories", 6)):
            a = r.choice([i for i in idents if i.user == "root"] or idents)
            conn = w.open("imds", a)
            base = "c07-%d-abs%d" % (args["shard"], k)
            oip, oport = wproxy.DESTS["other"]
            try:
                conn.send(rawhttp.build_request("GET", "/u/%s/first" % a.user, [("x-vf-id", base + "-hca")]))
                conn.read_response()
                time.sleep(0.05 + 0.1 * r.random())
                raw = rawhttp.build_request("GET", "/u/%s/second" % a.user, [("x-vf-id", base + "-b")], host="%s:%d" % (oip, oport))
                raw = raw.replace(b"GET /u/", b"GET http://%s:%d/u/" % (oip.encode(), oport), 1)
                conn.send(raw)
                try:
                    conn.read_response()
                except Exception:  # noqa
                    pass
            except Exception:  # noqa
                pass
            conn.close()
            with lock:
                res["evaluations"] += 1
            for u in w.upstream(base + "-b"):
                if u.host != "imds":
                    viol("request-sent-to-a-destination-other-than-the-recorded-one", {"recorded": "imds", "sent_to": u.host, "request_line": u.start.decode("latin-1"),
                                                                                        "history": "host closed its connection; next request in absolute form naming another host"})
            bump("absolute_form_after_host_close_histories")
            with lock:
                res["nontrivial"].append("abs-form-%d" % (k % 6))
        # ---- history 8: a process that becomes another program (execve, same pid) between two connections: the second connection is
        # judged as the program that made it, not as the program an earlier connection of that pid belonged to
        for k in range(args.get("exec_histories", 4)):
            e = w.identity(r.choice(["alice", "bob", "root"]), PROGS[0], ["--k", str(k)], exec_capable=True)
            seq = [PROGS[0]] + [r.choice(PROGS[1:]) for _ in range(r.randrange(1, 3))]
            for gi, prog in enumerate(seq):
                if gi > 0:
                    e.exec_to(prog, ["--gen", str(gi)])
                conn = w.open("imds", e)
                for target_prog in PROGS:
                    vid = "c07-%d-x%d-%d-%s" % (args["shard"], k, gi, target_prog)
                    raw = rawhttp.build_request("GET", "/p/%s/%s" % (target_prog, vid), [("x-vf-id", vid)])
                    try:
                        conn.send(raw)
                        st = conn.read_response().status
                    except Exception as ex:  # noqa
                        if common.is_timeout(ex):
                            raise
                        conn.close()        # closed by the agent after the previous answer: a new connection of the same process
                        conn = w.open("imds", e)
                        conn.send(raw)
                        st = conn.read_response().status
                    exp = 200 if target_prog == prog else 403
                    with lock:
                        res["evaluations"] += 1
                    if (st != 200) if exp == 200 else not (400 <= st < 600):
                        viol("connection-judged-as-the-program-of-an-earlier-connection-of-the-same-pid", {"pid": e.pid, "programs_in_this_pid": seq[:gi + 1], "current_program": prog,
                                                                                                         "url_for_program": target_prog, "status": st, "expected": exp})
                conn.close()
            bump("exec_histories")
            with lock:
                res["nontrivial"].append(common.sha(["exec", len(seq), k % 5]))
        # ---- history 4: an attributed connection that never sends a request; its record must still be consumed at accept
        for k in range(args["pairs"] // 3):
            a = r.choice(idents)
            conn = w.open("imds", a)
            port = conn.src_port
            t0 = time.time()
            while standin.present(w.vdir, port) and time.time() - t0 < 2.0:
                time.sleep(0.005)
            if standin.present(w.vdir, port):
                viol("record-not-consumed-at-accept", {"port": port, "history": "attributed connection accepted, no request sent, 2 s later the record is still in the map"})
            conn.close(abort=True)
            b = r.choice(idents)
            try:
                connb = w.open(record=False, src_port=port)
                do_requests(connb, b, "c07-%d-s%d-B" % (args["shard"], k), r.randrange(1, 3), expect_unattributed=True)
                connb.close()
            except OSError:
                bump("port_reuse_bind_failed")
            except Exception as e:  # noqa
                if common.is_timeout(e):
                    res.setdefault("inconclusive", []).append("client socket watchdog (60 s) fired while waiting for the proxy; not a verdict") if not res.get("inconclusive") else None
                else:
                    viol("no-response-on-reused-port", {"port": port, "err": repr(e)})
            bump("silent_connection_then_port_reuse")
            with lock:
                res["nontrivial"].append(common.sha(["silent", a.user, b.user, k % 5]))
        # ---- history 5: the host endpoint is unreachable when the attributed connection is accepted (nothing listens there)
        for k in range(args["pairs"] // 6):
            a = r.choice(idents)
            conn = w.open(("127.0.0.2", 9), a)      # original destination: a port nobody listens on
            port = conn.src_port
            try:
                conn.send(rawhttp.build_request("GET", "/down/%d" % k, [("x-vf-id", "c07-%d-d%d" % (args["shard"], k))]))
                st = conn.read_response().status
            except Exception as e:  # noqa
                st = "error:%r" % (e,)
            if standin.present(w.vdir, port):
                viol("record-not-consumed-at-accept", {"port": port, "history": "attributed connection whose host endpoint is unreachable", "status": st})
            conn.close(abort=True)
            try:
                connb = w.open(record=False, src_port=port)
                do_requests(connb, a, "c07-%d-d%d-B" % (args["shard"], k), 1, expect_unattributed=True)
                connb.close()
            except OSError:
                bump("port_reuse_bind_failed")
            except Exception as e:  # noqa
                if common.is_timeout(e):
                    res.setdefault("inconclusive", []).append("client socket watchdog (60 s) fired while waiting for the proxy; not a verdict") if not res.get("inconclusive") else None
                else:
                    viol("no-response-on-reused-port", {"port": port, "err": repr(e)})
            bump("host_unreachable_then_port_reuse")
        # ---- history 6: the diverted client is bound to a non-loopback local address (the kernel keys the record by source port only)
        for k in range(args["pairs"] // 6):
            a = r.choice(idents)
            c = rawhttp.Conn("127.0.0.1", 3080, src_ip=r.choice(["168.63.129.16", "169.254.169.254", "127.0.0.2"]), connect=False, timeout=60)
            port = c.src_port
            standin.inject(w.vdir, port, a.uid, a.pid, 1 if a.uid == 0 else 0, "169.254.169.254", 80)
            try:
                c.connect()
                do_requests(c, a, "c07-%d-n%d-A" % (args["shard"], k), r.randrange(1, 3))
            except Exception as e:  # noqa
                if common.is_timeout(e):
                    res.setdefault("inconclusive", []).append("client socket watchdog (60 s) fired while waiting for the proxy; not a verdict") if not res.get("inconclusive") else None
                else:
                    viol("attributed-connection-from-non-loopback-address-not-served", {"port": port, "err": repr(e)})
            if standin.present(w.vdir, port):
                viol("record-not-consumed-at-accept", {"port": port, "history": "client bound to a non-loopback local address"})
            c.close(abort=True)
            try:
                connb = w.open(record=False, src_port=port)
                do_requests(connb, a, "c07-%d-n%d-B" % (args["shard"], k), 1, expect_unattributed=True)
                connb.close()
            except OSError:
                bump("port_reuse_bind_failed")
            except Exception as e:  # noqa
                if common.is_timeout(e):
                    res.setdefault("inconclusive", []).append("client socket watchdog (60 s) fired while waiting for the proxy; not a verdict") if not res.get("inconclusive") else None
                else:
                    viol("no-response-on-reused-port", {"port": port, "err": repr(e)})
            bump("non_loopback_source_then_port_reuse")
        # the event log must show lookup-hit followed by remove-hit for every attributed port
        evs = standin.events(w.vdir)
        hits = {}
        for e in evs:
            if e["op"] == "lookup" and e["args"][1] == "hit":
                hits.setdefault(e["args"][0], []).append(("L", e["seq"]))
            if e["op"] == "remove" and e["args"][1] == "hit":
                hits.setdefault(e["args"][0], []).append(("R", e["seq"]))
        for port, seqs in hits.items():
            kinds = "".join(k for k, _ in sorted(seqs, key=lambda x: x[1]))
            if kinds.replace("LR", "") != "":
                viol("lookup-without-remove", {"port": port, "events": kinds})
        bump("lookup_remove_pairs_checked", len(hits))

        # ---- history 3: many connections accepted concurrently, each with its own identity
        for burst in range(args["bursts"]):
            nconn = r.choice([32, 64, 96])
            barrier = threading.Barrier(nconn)
            errs = []

            def client(ci, seedv):
                rr = common.rng("c07-burst", args["shard"], burst, ci)
                ident = idents[ci % len(idents)]
                try:
                    direct = rr.random() < 0.1
                    barrier.wait(timeout=30)
                    conn = w.open("imds", ident, record=not direct)
                    do_requests(conn, ident, "c07-%d-b%d-c%d" % (args["shard"], burst, ci), rr.randrange(1, 12), expect_unattributed=direct, rr=rr)
                    conn.close()
                except Exception as e:  # noqa
                    errs.append(repr(e))
            ts = [threading.Thread(target=client, args=(ci, 0)) for ci in range(nconn)]
            for t in ts: t.start()
            for t in ts: t.join()
            if errs:
                viol("burst-client-error", {"errors": errs[:3]})
            bump("burst_connections", nconn)
            res["nontrivial"].append(common.sha(["burst", nconn, burst, args["shard"]]))
        # ---- the agent's own connection summaries must name the identity of that very connection
        time.sleep(0.2)
        summ = summaries_by_url(w.shim.stdout_path)
        checked = 0
        for url, (ident, exp, unattr) in expectations.items():
            lines = summ.get(url) or []
            if not lines:
                continue
            for j in lines:
                checked += 1
                if unattr:
                    # how the agent words 'nobody' in its summary is its own business; it must not name one of the callers
                    if j.get("processCmdLine") in [i.cmdline for i in idents] or j.get("userName") in USERS:
                        viol("summary-names-an-identity-for-unattributed-connection", {"url": url, "summary": j})
                elif j.get("userId") != ident.uid or j.get("processCmdLine") != ident.cmdline:
                    viol("summary-names-another-connections-identity", {"url": url, "summary": j, "expected_uid": ident.uid, "expected_cmd": ident.cmdline})
        bump("summary_lines_checked", checked)
        if checked == 0:
            res.setdefault("inconclusive", []).append("no connection summary line observed")
        if args.get("delays"):
            bump("delay_point_firings", sum(v[1] for v in w.shim.call("delay_counts")["counts"].values()))
        for p in w.shim.panics():
            viol("panic:%s" % p.get("location"), p)
        res["samples"].append({"history": "A(port p, k requests) -> RST -> B(same port, %s)" % "fresh record | no record", "burst": "32-96 concurrent connections x 1-11 requests, 10% direct"})
    finally:
        w.close()
    return res


def run(tier, rep):
    wproxy.build_helper()
    rep.coverage["rule"] = ("histories: (1) record for port p, connection A with 1-4 keep-alive requests, RST, immediately connection B from the same port without a record (must be 421, nothing upstream); "
                            "(2) same with a fresh record for a different user (B judged as the new user only); (3) bursts of 32-96 connections accepted concurrently, each with its own process/user, 1-11 "
                            "requests each, under a rule set where the allowed URL depends on the user name; oracles: per-request outcome and upstream isRoot equal the identity injected for that very "
                            "connection, stand-in event log shows lookup-hit then remove-hit per port and the record file is gone after accept, the agent's connection-summary line for each URL names "
                            "that connection's uid/cmdline. non-trivial = port-reuse pair or concurrent burst; distinct by (kind, users, size)")
    shards = 6 if tier == "quick" else 16
    args = [{"shard": i, "tier": tier, "identities": 8, "pairs": 60 if tier == "quick" else 400, "bursts": 4 if tier == "quick" else 30,
             "delays": (i % 2 == 1)} for i in range(shards)]
    for res in sandbox.run_many("vf.props.c07", "worker", args, workers=shards, timeout=1500 if tier == "quick" else 9000):
        rep.merge_worker(res)
    from .. import realbpf
    if not realbpf.build():
        for delays in (False, True):
            kres = sandbox.run("vf.props.kernelsec", "c07_worker", {"tier": tier, "rounds": 4 if tier == "quick" else 40, "delays": delays, "immediate_reuses": 60 if tier == "quick" else 600},
                               timeout=900 if tier == "quick" else 5400, pidns=False)
            if kres.get("skip_reason"):
                rep.coverage["kernel_section_skip_reason"] = kres["skip_reason"][:300]
                kres.pop("inconclusive", None)
            rep.merge_worker(kres)
    rep.assumptions += ["hook H1 stands in for the kernel audit map; lookup and remove are separate traced operations"]
    # which record a source port carries is decided in the eBPF program (audit_map keyed by source port): a slice of the C06 engine (ASan model,
    # worlds with source-port reuse over unconsumed records) judges that a reused port carries the record of the NEW connection
    from . import c06
    c06.ebpf_slice(tier, rep, keep=("record-wrong", "record-for-connect-that-must-not-have-one", "redirected-connect-left-no-record", "sanitizer"), nworlds=400 if tier == "quick" else 4000,
                   kernel=False, label="record under a reused source port")

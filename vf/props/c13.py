"""C13 - No input can crash a request handler or a background task."""
import json, os, threading, time
from .. import common, sandbox, wproxy, rawhttp, shim as shimmod, mockhost, gen_http

CUTS = [1024, 4096]
WIDE = ["é", "€", "😀", "ü", "漢"]   # 2, 3, 4, 2, 3 bytes in UTF-8


def boundary_strings(r, cut, prefix=""):
    """strings whose UTF-8 encoding crosses `cut` with a multi-byte character at every alignment"""
    out = []
    for ch in WIDE:
        w = len(ch.encode())
        for delta in range(0, w + 1):
            n = cut - len(prefix.encode()) - delta
            if n < 0:
                continue
            s = prefix + "a" * n + ch * 8 + "tail"
            out.append((s, "cut%d:width%d:delta%d" % (cut, w, delta)))
    return out


def site_fuzz(w, res, r):
    """layer 1: anchored sites driven directly through RPC (each call in its own task)"""
    s = w.shim
    def bump(k, n=1):
        res["counts"][k] = res["counts"].get(k, 0) + n

    def call(site, cls, op, **kw):
        res["evaluations"] += 1
        try:
            s.call(op, **kw)
            bump("site:%s:reached" % site)
        except shimmod.ShimPanic as e:
            bump("site:%s:reached" % site)
            loc = ((e.info.get("last") or {}).get("location") or "?")
            res["violations"].append(["panic-at:%s:%s" % (site, loc.split("/src/")[-1]), {"site": site, "class": cls, "panic": e.info}])
        res["nontrivial"].append("%s:%s" % (site, cls))
    for text, cls in boundary_strings(r, 4096):
        call("event_logger::write_event", cls, "write_event", message=text)
    for text, cls in boundary_strings(r, 1024):
        for module in ("KeyKeeper", "Redirector"):
            call("get_module_status", cls, "status_message", message=text + module, module=module)
    # ascii controls for the same sites (must not fire)
    call("event_logger::write_event", "ascii-long", "write_event", message="x" * 9000)
    call("get_module_status", "ascii-long", "status_message", message="y" * 3000, module="ProxyServer")
    # more events than the bounded event queue holds (nothing drains it before the first flush), written from several tasks at the same time
    before = len(s.panics())
    for k in range(1100):
        s.call_async("write_event", message="fill-%d" % k)
    s.call("ping")
    handles = [s.call_async("write_event", message="burst-%d " % k + "z" * (k % 50)) for k in range(1600)]
    for h_ in handles:
        try:
            s.wait(h_, 120)
        except shimmod.ShimPanic:
            pass
    res["evaluations"] += 1
    bump("site:event_queue_overflow_concurrent_writers:reached")
    res["nontrivial"].append("event-queue-overflow")
    for p_ in s.panics()[before:][:1]:
        res["violations"].append(["panic-at:event_logger::write_event:%s" % (p_.get("location") or "?").split("/src/")[-1], {"class": "queue full, concurrent writers", "panic": p_}])
    # canonicaliser with arbitrary header bytes
    cases = []
    for hv in (b"caf\xe9", b"\xff\xfe", b"ok", b"\x80", "ü".encode(), b"a\tb"):
        cases.append({"method": "GET", "uri": "/a?b=1", "headers": [["x-h", hv.hex()], ["x-vf", b"1".hex()]], "body": ""})
    out = s.call("sig_input_batch", cases=cases)["results"]
    for c, o in zip(cases, out):
        res["evaluations"] += 1
        bump("site:headers_to_canonicalized_string:reached")
        cls = "obs-text" if any(b >= 0x80 for b in bytes.fromhex(c["headers"][0][1])) else "ascii"
        res["nontrivial"].append("as_sig_input:%s:%s" % (cls, c["headers"][0][1]))
        if o.get("panic"):
            res["violations"].append(["panic-at:as_sig_input:header-value-%s" % cls, {"case": c, "panics": s.panics()[-1:]}])


def log_header_instants(w, res, duration_ms):
    """layer 1c: the log header at instants whose sub-second part ends in zeros (time-dependent input of every log call)"""
    before = len(w.shim.panics())
    o = w.shim.call("log_header_spin", duration_ms=duration_ms, timeout=duration_ms / 1000.0 + 60)
    res["evaluations"] += 1
    c = res["counts"]
    c["log_header_calls_around_10ms_boundaries"] = c.get("log_header_calls_around_10ms_boundaries", 0) + o["calls"]
    c["log_headers_with_short_time_stamp_seen"] = c.get("log_headers_with_short_time_stamp_seen", 0) + o["short_headers"]
    c["site:log_header_short_time_stamp:reached"] = c.get("site:log_header_short_time_stamp:reached", 0) + o["short_headers"] + o["panicked_calls"]
    for p in w.shim.panics()[before:]:
        res["violations"].append(["panic-at:log-header-at-instant-with-trailing-zero-subsecond:%s" % (p.get("location") or "?").split("/src/")[-1], {"panic": p, "calls": o["calls"]}])
        break
    if o["short_headers"]:
        res["nontrivial"].append("log-header-short-timestamp")


def hostile_replies(w, res, r):
    """layer 1b: hostile host replies into hyper_client::get / read_response_body"""
    s = w.shim
    replies = []
    for ctype in ("text/xml", "application/json", "text/plain", "application/octet-stream", None):
        for charset in ("utf-8", "utf-16", "utf-32", None):
            ct = None if ctype is None else (ctype + ("; charset=%s" % charset if charset else ""))
            for body, bl in ((b"{}", "even"), (b'{"a":1}', "odd"), (b"\xff\xfe{\x00}\x00\x00", "odd-utf16"), ("é".encode() * 2001, "long-nonascii"), (b"<a>" + b"x" * 5000, "badxml"), (b"", "empty")):
                for segs in (None, [1] * 8, [3, 3, 3]):
                    replies.append((ct, body, bl, segs))
    state = {"i": 0}

    def handler(name, req):
        ct, body, bl, segs = replies[state["i"] % len(replies)]
        hs = [("Content-Type", ct)] if ct else []
        spec = {"status": 200, "headers": hs, "body": body, "framing": "chunked" if segs else "cl"}
        if segs:
            spec["chunks"] = segs
            spec["segments"] = [len(b"HTTP/1.1 200 OK\r\n") + 60] + [5 + x for x in segs]
            spec["gap"] = 0.001
        return spec
    w.handler = lambda n, q: handler(n, q)
    for i in range(len(replies)):
        state["i"] = i
        ct, body, bl, segs = replies[i]
        res["evaluations"] += 1
        cls = "%s:%s:%s" % (ct, bl, "split" if segs else "whole")
        try:
            s.call("hyper_get", url="http://127.0.0.2:8080/r%d" % i)
            res["counts"]["site:read_response_body:reached"] = res["counts"].get("site:read_response_body:reached", 0) + 1
        except shimmod.ShimPanic as e:
            loc = ((e.info.get("last") or {}).get("location") or "?")
            res["violations"].append(["panic-at:read_response_body:%s" % loc.split("/src/")[-1], {"class": cls, "panic": e.info}])
        if ct and "utf-16" in ct or bl == "long-nonascii":
            res["nontrivial"].append("reply:" + cls)
    # replies whose announced length has nothing to do with what follows (a length is a number the host chooses: 2^63, 2^64-1, overflowing,
    # terabytes, negative, repeated and contradictory, a chunk size of 2^64-1), body tiny, connection closed afterwards
    heads = [b"Content-Length: 9223372036854775808", b"Content-Length: 18446744073709551615", b"Content-Length: 18446744073709551616", b"Content-Length: 9223372036854775807",
             b"Content-Length: 1099511627776", b"Content-Length: 4294967296", b"Content-Length: -1", b"Content-Length: 2\r\nContent-Length: 3", b"Content-Length: 0x10",
             b"Transfer-Encoding: chunked", b"Content-Length: 140737488355328"]
    lying = []
    for h in heads:
        for ct in (b"application/json; charset=utf-8", b"text/xml; charset=utf-16", None):
            body = b"FFFFFFFFFFFFFFFF\r\n{}\r\n0\r\n\r\n" if h.startswith(b"Transfer") else b"{}"
            lying.append(b"HTTP/1.1 200 OK\r\n" + (b"Content-Type: " + ct + b"\r\n" if ct else b"") + h + b"\r\n\r\n" + body)
    w.handler = lambda n, q: {"raw": lying[state["i"] % len(lying)], "close": True}
    for i in range(len(lying)):
        state["i"] = i
        res["evaluations"] += 1
        try:
            s.call("hyper_get", url="http://127.0.0.2:8080/lying%d" % i, timeout=60)
            res["counts"]["site:read_response_body:lying-length"] = res["counts"].get("site:read_response_body:lying-length", 0) + 1
        except shimmod.ShimPanic as e:
            loc = ((e.info.get("last") or {}).get("location") or "?")
            res["violations"].append(["panic-at:read_response_body:%s" % loc.split("/src/")[-1], {"class": "announced-length-lies", "reply_head": lying[i][:160].decode("latin-1"), "panic": e.info}])
        except shimmod.ShimDead:
            res["violations"].append(["process-died-at:read_response_body", {"class": "announced-length-lies", "reply_head": lying[i][:160].decode("latin-1"),
                                                                             "stderr_tail": open(s.stderr_path, "rb").read()[-400:].decode("latin-1")}])
            return
        res["nontrivial"].append("reply-lying-length:%d" % i)
    w.handler = wproxy.World.default_handler


def e2e(w, res, r, scratch, args_tier="quick"):
    """layer 2: hostile requests and hostile caller identities through the real listener with a key latched"""
    def bump(k, n=1):
        res["counts"][k] = res["counts"].get(k, 0) + n
    w.key("ffffffff-0000-4000-8000-000000000001", "%064x" % r.getrandbits(256))
    root = w.identity("root", "helper", [])
    deny = {"defaultAccess": "deny", "mode": "enforce", "id": "deny-all"}

    def probe(tag):
        """after each hostile input the listener must still serve a plain request"""
        try:
            c = w.open("other", root, timeout=60)
            c.send(rawhttp.build_request("GET", "/probe", [("x-vf-id", "probe-" + tag)]))
            ok = c.read_response().status == 200
            c.close()
            return ok
        except Exception as e:  # noqa
            if common.is_timeout(e):
                if not res.get("inconclusive"):
                    res.setdefault("inconclusive", []).append("client socket watchdog (60 s) fired on a probe; not a verdict")
                return True
            return False
    before = len(w.shim.panics())

    def talk(c, raw, method=None):
        """True = an HTTP response arrived; False = the connection ended without one; "timeout" = our own 60 s watchdog fired"""
        try:
            c.send(raw)
            c.read_response(method) if method else c.read_response()
            return True
        except Exception as e:  # noqa
            return "timeout" if common.is_timeout(e) else False

    def after(sig_prefix, cls, wit, got_response):
        nonlocal before
        ps = w.shim.panics()
        new = ps[before:]
        before = len(ps)
        res["evaluations"] += 1
        for p in new:
            loc = (p.get("location") or "?").split("/src/")[-1]
            res["violations"].append(["panic-at:%s:%s" % (sig_prefix, loc), dict(wit, panic=p, client_got_response=got_response)])
        if got_response == "timeout":
            if not res.get("inconclusive"):
                res.setdefault("inconclusive", []).append("client socket watchdog (60 s) fired while waiting for the proxy; not a verdict")
        elif not got_response and not new:
            res["violations"].append(["no-http-response:%s" % sig_prefix, wit])
        if not probe(cls):
            res["violations"].append(["listener-dead-after:%s" % sig_prefix, wit])
    # header values with bytes >= 0x80, repeated headers, long URLs
    for hv, cls in ((b"caf\xe9", "latin1"), (b"\xff", "ff"), ("ü€".encode(), "utf8"), (b"plain", "ascii")):
        for dest in ("other", "imds"):
            c = w.open(dest, root, timeout=60)
            raw = b"GET /h?x=1 HTTP/1.1\r\nHost: x\r\nx-vf-id: hv-" + cls.encode() + b"\r\nX-Odd: " + hv + b"\r\nX-Odd: again\r\n\r\n"
            got = talk(c, raw)
            c.close()
            bump("e2e:header-bytes:" + cls)
            if cls != "ascii":
                res["nontrivial"].append("e2e-header:%s:%s" % (cls, dest))
            after("request-header-value-bytes", cls, {"header_value": hv.hex(), "dest": dest}, got)
    for n in (2000, 8000, 60000):
        c = w.open("other", root, timeout=60)
        got = talk(c, rawhttp.build_request("GET", "/" + "u" * n + "?q=" + "é".encode().hex(), [("x-vf-id", "long-%d" % n)]))
        c.close()
        bump("e2e:long-url")
        after("long-url", str(n), {"url_len": n}, got)
    # percent signs and escapes at odd places of the path / query (dangling '%', one hex digit, non-hex digits, escapes of escapes, escaped dots
    # and slashes), attributed and unattributed
    odd_targets = ["/a%", "/a%2", "/metadata/instance%2", "/x%252", "/x%25%32", "/%", "/%%", "/a%zz", "/a%2e%2", "/a%2e%2e%2", "/%2e%2e%2f", "/a/%2E%2E/%2", "/a?b=%", "/a?b=%2", "/a?%=%25%",
                   "/a%c3", "/a%c3%28", "/a%ff%fe", "/a%00b", "/a%25252e%25252e/x%2", "/" + "%2e" * 300 + "%2", "/a;b=%2", "/a%2/b%"]
    # the other request-target forms of HTTP/1.1: authority-form (CONNECT), asterisk-form, absolute-form
    odd_requests = [("GET", t) for t in odd_targets] + [("CONNECT", "168.63.129.16:80"), ("CONNECT", "example.org:443"), ("OPTIONS", "*"), ("GET", "http://168.63.129.16/machine?comp=goalstate"),
                                                         ("GET", "http://x"), ("POST", "http://[::1]:80/a?b"), ("CONNECT", "[::1]:80"), ("GET", "//double/slash?x"), ("HEAD", "/head%2")]
    for ti, (omethod, target) in enumerate(odd_requests):
        for attributed in (True, False):
            c = w.open("other", root, timeout=60) if attributed else w.open(record=False, timeout=60)
            got = talk(c, omethod.encode() + b" " + target.encode() + b" HTTP/1.1\r\nHost: x\r\nx-vf-id: odd-%d\r\n\r\n" % ti, omethod.encode())
            c.close()
            bump("e2e:odd-percent-target")
            res["nontrivial"].append("e2e-odd-target:%d:%s" % (ti, attributed))
            after("request-target-with-odd-percent-escapes", "t%d" % ti, {"target": target[:120], "attributed": attributed}, got)
    # rule documents as the host may send them (dangling role / identity / privilege names, duplicates, empty sections, odd letter case): set the
    # way the key keeper sets them, then requests that exercise the compiled rules
    from .. import gen_rbac
    for di in range(60 if args_tier == "quick" else 1500):
        doc = gen_rbac.gen_doc(r, dup_ok=True, mode=r.choice(["enforce", "audit", "Enforce"]))
        try:
            w.rules("imds", doc)
        except common.Inconclusive:
            continue        # the document was refused as a whole: nothing to exercise
        for k in range(3):
            c = w.open("imds", root, timeout=60)
            got = talk(c, rawhttp.build_request("GET", gen_rbac.gen_url(r), [("x-vf-id", "doc-%d-%d" % (di, k))]))
            c.close()
            bump("e2e:hostile-rule-document")
            after("request-under-a-hostile-rule-document", "doc%d" % (di % 20), {"rules": doc}, got)
        if any(v[0].startswith(("panic-at:request-under", "no-http-response:request-under", "listener-dead-after:request-under")) for v in res["violations"]):
            break
        res["nontrivial"].append("hostile-doc-%d" % (di % 40))
    w.rules("imds", None)
    # the proxy's own /provision endpoint with hostile headers
    for tick, cls in ((b"12\xff34", "tick-non-ascii"), ("ü".encode(), "tick-utf8"), (b"9" * 60, "tick-huge"), (b"-1", "tick-negative"), (b"", "tick-empty"), (b"1e9", "tick-float")):
        for md in (b"True", b"\xfftrue", None):
            c = w.open(record=False, timeout=60)
            raw = b"GET /provision HTTP/1.1\r\nHost: x\r\nx-ms-azure-time_tick: " + tick + b"\r\n" + (b"Metadata: " + md + b"\r\n" if md is not None else b"") + b"x-ms-azure-notify: \xfe\r\n\r\n"
            got = talk(c, raw)
            c.close()
            bump("e2e:provision-query:" + cls)
            if b"\xff" in tick + (md or b"") or cls == "tick-utf8":
                res["nontrivial"].append("e2e-provision:%s:%s" % (cls, md))
            after("provision-query-hostile-header", cls, {"tick": tick.hex(), "metadata": None if md is None else md.hex()}, got)
    # callers whose command line / user name contain multi-byte text placed so that the texts the agent builds cross 4096
    w.rules("imds", deny)
    made = 0
    for ch in ("é", "€", "😀"):
        for delta in range(0, 5):
            for base in (3700, 3900, 4000):
                arg = "a" * (base - delta) + ch * 120
                ident = w.identity("Ünï" if made % 2 else "alice", "tøøl" if made % 3 == 0 else "tool", [arg])
                made += 1
                for dest, expect in (("imds", 403), ("other", 200)):
                    c = w.open(dest, ident, timeout=60)
                    got, st = False, None
                    try:
                        c.send(rawhttp.build_request("GET", "/x?y=1", [("x-vf-id", "cmd-%d-%s" % (made, dest))])); st = c.read_response().status; got = True
                    except Exception as e:  # noqa
                        got = "timeout" if common.is_timeout(e) else False
                    c.close()
                    bump("e2e:multibyte-cmdline:%s" % dest)
                    res["nontrivial"].append("e2e-cmdline:%d:%d:%d:%s" % (len(ch.encode()), delta, base, dest))
                    after("caller-with-multibyte-cmdline(%s)" % ("denied" if dest == "imds" else "allowed"), "w%d-d%d-b%d" % (len(ch.encode()), delta, base),
                          {"cmdline_bytes": len(ident.cmdline.encode()), "char_width": len(ch.encode()), "delta": delta, "base": base, "dest": dest, "status": st, "user": ident.user}, got)
    w.rules("imds", None)
    # callers the agent can learn little about: a process that has exited and is not reaped yet (its socket lives on, e.g. inherited),
    # and a pid that does not exist - the request must still be answered, nothing may panic
    import subprocess as _sp
    zs = []
    for k in range(6):
        z = _sp.Popen([wproxy.HELPER_BIN], stdin=_sp.PIPE, stdout=_sp.DEVNULL, user=1001 if k % 2 else 0, group=1001 if k % 2 else 0, extra_groups=[])
        z.kill(); zs.append(z)      # never waited for: a zombie for as long as the handle is held
        time.sleep(0.03)
        for dest in ("imds", "other"):
            c = w.open(dest, root, pid=z.pid, uid=1001 if k % 2 else 0, timeout=60)
            got = talk(c, rawhttp.build_request("GET", "/z?k=%d" % k, [("x-vf-id", "zombie-%d-%s" % (k, dest))]))
            c.close()
            bump("e2e:zombie-caller:%s" % dest)
            res["nontrivial"].append("e2e-zombie:%d:%s" % (k, dest))
            after("caller-is-a-zombie-process", "k%d-%s" % (k % 2, dest), {"pid": z.pid, "dest": dest}, got)


def background_tasks(args, scratch):
    """layer 3: the real key keeper (short poll interval) against a mock host that answers with hostile documents, while local
    clients keep notifying it through /provision; the task must keep polling (bounded progress: the status-request counter advances)"""
    import os
    from .. import wsmock
    res = {"evaluations": 0, "nontrivial": [], "samples": [], "counts": {}, "violations": []}
    r = common.rng("c13-bg", args["tier"])
    key_dir = os.path.join(scratch, "keys")
    ws = wsmock.WsMock("168.63.129.16", 80, rng=r, key_dir=key_dir)
    ws.version = "1.0"; ws.state_v1 = "Wireserver"
    # delay point inside update_provision_state (an existing await between two actor messages): the key-latch report takes 0-4 ms, as it
    # does on a machine with slow storage
    sh = shimmod.Shim(scratch + "/shim", runtime="multi:4", env={"GPA_VERIF_DELAY": "provision_update:1000:4000", "GPA_VERIF_DELAY_SEED": "5"})
    try:
        sh.call("init", log_dir=scratch + "/logs", log_level="Info")
        sh.call("proxy_start", port=3080)
        sh.call("key_keeper_start", base_url="http://168.63.129.16:80/", key_dir=key_dir, log_dir=scratch + "/logs", interval_ms=args["interval_ms"])
        t0 = time.time()
        while ws.latched is None and time.time() - t0 < 10:
            time.sleep(0.02)
        # all three subsystems ready: every later key-latch report rewrites the provision state files (a slower path inside the notify branch)
        sh.call("prov", what="redirector_ready")
        hostile = [{"kind": "body", "body": "é" * 3000, "ctype": "text/plain; charset=utf-8"}, {"kind": "body", "body": "{" * 5000}, {"kind": "status", "code": 500, "body": "x" * 100000},
                   {"kind": "body", "body": '{"authorizationScheme":"Azure-HMAC-SHA256","keyDeliveryMethod":"http","version":"2.0","secureChannelEnabled":true,"authorizationRules":{"imds":{"defaultAccess":"allow","mode":"Bogus","id":"x"}}}'},
                   {"kind": "body", "body": "\ufeff{}"}, {"kind": "reset"}, {"kind": "body", "body": "<xml/>", "ctype": "text/xml; charset=utf-16"}]
        rounds = args["rounds"]
        for i in range(rounds):
            before = ws.status_count
            if i % 3 == 0:
                ws.fault("status", r.choice(hostile))
            # notifications (clients calling /provision with the notify header cause them) aimed at the end of the poll interval,
            # measured from the moment the host saw the previous status request, plus a few at random offsets
            t_w = time.time()
            while ws.status_count <= before and time.time() - t_w < 5:
                time.sleep(0.0002)
            before = ws.status_count
            if i % 2 == 0:
                time.sleep(max(0, args["interval_ms"] / 1000.0 - r.random() * 0.005))
            else:
                time.sleep(r.random() * args["interval_ms"] / 1000.0)
            sh.call("notify_key_keeper")
            res["evaluations"] += 1
            t1 = time.time()
            while ws.status_count <= before and time.time() - t1 < 5:
                time.sleep(0.01)
            ps = sh.panics()
            if ps:
                for pn in ps:
                    res["violations"].append(["panic-at:key-keeper-task:%s" % (pn.get("location") or "?").split("/src/")[-1], {"panic": pn, "round": i}])
                break
            if ws.status_count <= before:
                res["violations"].append(["key-keeper-stopped-polling-without-panic", {"round": i, "status_requests": ws.status_count}])
                break
            res["nontrivial"].append("bg-%d" % (i % 50))
        res["counts"]["key_keeper_polls_observed"] = ws.status_count
        res["counts"]["site:key_keeper_notify_path:reached"] = rounds
        res["samples"].append({"layer": "background", "interval_ms": args["interval_ms"], "rounds": rounds})
    finally:
        ws.close(); sh.close()
    return res


def impatient_clients(args, scratch):
    """layer 4: clients that send a syntactically valid request and disconnect 0-2 ms later (hyper drops the handler future at whatever
    await it has reached: queued actor messages lose their requester), mixed with patient probes; the status task runs on a short interval
    so that the status actor is busy. Oracles: no panic anywhere in the process, probes are served during and after the storm, and the
    status file keeps being rewritten."""
    import os, socket, threading
    res = {"evaluations": 0, "nontrivial": [], "samples": [], "counts": {}, "violations": []}
    cnt = res["counts"]
    lock = threading.Lock()
    # hook H3: the actors sometimes take 0-3 ms before they answer a message (as when their task is not scheduled), so that a
    # requester can be gone by then
    env = {"GPA_VERIF_DELAY": "actor_agent_status:250:3000,actor_key_keeper:250:3000,actor_proxy_server:250:3000,actor_provision:250:3000", "GPA_VERIF_DELAY_SEED": str(args["shard"] + 11)}
    w = wproxy.World(scratch, runtime="multi:%d" % args["rt_threads"], env=env if args.get("actor_delays", True) else None)
    status_dir = scratch + "/status"
    try:
        w.key("ffffffff-0000-4000-8000-000000000002", "%064x" % common.rng("c13-imp-key").getrandbits(256))
        w.shim.call("status_task_start", dir=status_dir, interval_ms=5)
        root = w.identity("root", "helper", [])
        w.rules("imds", {"defaultAccess": "deny", "mode": "audit", "id": "imp"})
        probe_fail = []

        def burst(ti, rnd):
            # one unpaced burst: the accept queue and the status actor's queue fill up, so handler futures are dropped while their
            # actor messages are still queued. Bursts are bounded (threads x burst < listen backlog) and separated by a served probe,
            # so the listener is never driven into SYN drops (slowness is not what is being judged).
            rr = common.rng("c13-imp", args["shard"], ti, rnd)
            for k in range(args["burst"]):
                try:
                    c = w.open(rr.choice(["imds", "other"]), root, timeout=60)
                    c.send(rawhttp.build_request(rr.choice(["GET", "POST"]), "/imp/%d/%d?x=%d" % (ti, rnd, k), [("x-vf-id", "imp-%d-%d-%d" % (ti, rnd, k)), ("content-length", "0")]))
                    mode = (k + rnd) % 4
                    if mode == 1:
                        time.sleep(rr.random() * 0.0003)
                    elif mode == 2:
                        time.sleep(rr.random() * 0.002)
                    c.close(abort=(k % 3 != 0))
                    with lock:
                        cnt["impatient_requests"] = cnt.get("impatient_requests", 0) + 1
                except OSError:
                    with lock:
                        cnt["impatient_client_errors"] = cnt.get("impatient_client_errors", 0) + 1

        def probe(n):
            try:
                # source ports outside the ephemeral range: a record injected for a probe cannot be consumed by the late accept of
                # an aborted storm connection that used the same (recycled) ephemeral port
                c = w.open("other", root, timeout=60, src_port=20000 + n)
                c.send(rawhttp.build_request("GET", "/probe/%d" % n, [("x-vf-id", "imp-probe-%d" % n)]))
                st = c.read_response().status
                c.close()
                if st != 200:
                    probe_fail.append({"probe": n, "status": st})
            except (socket.timeout, TimeoutError):
                # slow is not a verdict on a loaded machine: counted, and liveness is judged after the storm
                cnt["patient_probes_slower_than_60s"] = cnt.get("patient_probes_slower_than_60s", 0) + 1
            except Exception as e:  # noqa
                probe_fail.append({"probe": n, "error": repr(e)})
            cnt["patient_probes"] = cnt.get("patient_probes", 0) + 1
        for rnd in range(args["rounds"]):
            ts = [threading.Thread(target=burst, args=(i, rnd)) for i in range(args["threads"])]
            for t in ts: t.start()
            if rnd % 2:
                probe(rnd)          # a patient request in the middle of the burst
            for t in ts: t.join()
            if rnd % 2 == 0:
                probe(rnd)          # and one right after it
            if probe_fail or (rnd % 8 == 7 and w.shim.panics()):
                break
        res["evaluations"] += cnt.get("impatient_requests", 0) + cnt.get("patient_probes", 0)
        try:
            dc = w.shim.call("delay_counts")["counts"]
            cnt["actor_delay_points_reached"] = sum(v[0] for k, v in dc.items() if k.startswith("actor_"))
            cnt["actor_delay_points_fired"] = sum(v[1] for k, v in dc.items() if k.startswith("actor_"))
        except Exception:  # noqa
            pass
        for p in w.shim.panics():
            res["violations"].append(["panic-at:impatient-clients:%s" % (p.get("location") or "?").split("/src/")[-1], {"panic": p}])
        # liveness afterwards: the listener serves, and the status task publishes (the file is rewritten)
        ok = False
        for k in range(3):
            try:
                c = w.open("other", root, timeout=60, src_port=19990 + k)
                c.send(rawhttp.build_request("GET", "/probe/final", [("x-vf-id", "imp-probe-final")]))
                ok = c.read_response().status == 200
                c.close()
            except Exception:  # noqa
                ok = False
            if ok:
                break
        if not ok:
            res["violations"].append(["listener-dead-after:impatient-clients", {"probe_failures": probe_fail[:5]}])
        elif probe_fail:
            res["violations"].append(["no-http-response:patient-request-during-impatient-clients", {"failures": probe_fail[:5], "count": len(probe_fail)}])
        sp = os.path.join(status_dir, "status.json")

        def stamp():
            try:
                st = os.stat(sp)
                return (st.st_mtime_ns, st.st_ino)
            except OSError:
                return None
        s0 = stamp()
        t0 = time.time()
        while stamp() == s0 and time.time() - t0 < 10:
            time.sleep(0.02)
        if stamp() == s0:
            res["violations"].append(["status-task-stopped-publishing-after:impatient-clients", {"stamp": s0}])
        cnt["status_file_rewritten_after_storm"] = 1 if stamp() != s0 else 0
        res["nontrivial"] += ["impatient-%d-%d" % (args["shard"], i) for i in range(min(50, cnt.get("impatient_requests", 0) // 100))]
        res["samples"].append({"layer": "impatient-clients", "threads": args["threads"], "burst": args["burst"], "rounds": args["rounds"], "requests": cnt.get("impatient_requests", 0), "probes": cnt.get("patient_probes", 0)})
    finally:
        w.close()
    return res


def worker(args, scratch):
    r = common.rng("c13", args["shard"], args["tier"])
    res = {"evaluations": 0, "nontrivial": [], "samples": [], "counts": {}, "violations": []}
    wrapper, vgdir = (common.memcheck_wrapper(scratch) if args.get("memcheck") else (None, None))
    w = wproxy.World(scratch, runtime="multi:4" if not vgdir else "multi:2", wrapper=wrapper)
    try:
        try:
            if args["layer"] == "sites":
                site_fuzz(w, res, r)
                hostile_replies(w, res, r)
                if not args.get("memcheck") and not any(v[0].startswith("process-died") for v in res["violations"]):
                    log_header_instants(w, res, 3000 if args["tier"] == "quick" else 60000)
            else:
                e2e(w, res, r, scratch, args["tier"])
        except shimmod.ShimDead as e:
            # the process hosting the agent code is gone (abort, e.g. an allocation failure): worse than a panic
            if not any(v[0].startswith("process-died") for v in res["violations"]):
                res["violations"].append(["process-died-during:%s" % args["layer"], {"op": str(e), "stderr_tail": open(w.shim.stderr_path, "rb").read()[-400:].decode("latin-1")}])
        res["samples"].append({"layer": args["layer"], "example": "prefix of length cut-delta followed by 2/3/4-byte characters, cut in {1024, 4096}"})
    finally:
        w.close()
    if vgdir:
        # supplementary sanitizer pass: the same hostile inputs with the shim under valgrind memcheck
        time.sleep(0.5)
        reports, summaries = common.memcheck_reports(vgdir)
        res["counts"]["memcheck_error_summaries"] = len(summaries)
        res["counts"]["memcheck_reports"] = len(reports)
        seen = set()
        for rp in reports:
            key = (rp["kind"], rp["first_agent_frame"])
            if key not in seen:
                seen.add(key)
                res["violations"].append(["memcheck:%s" % rp["kind"], rp])
        if not summaries:
            res.setdefault("inconclusive", []).append("memcheck slice produced no valgrind summary")
    return res


def run(tier, rep):
    wproxy.build_helper()
    rep.coverage["rule"] = ("layer 1: anchored sites through RPC (write_event, set/get module status, canonicaliser with arbitrary header bytes, read_response_body with content types x charsets x frame splits), strings = "
                            "prefix of length cut-delta followed by 2/3/4-byte characters for cut in {1024, 4096}; layer 2: the real listener with a key latched: header values with bytes >= 0x80, repeated headers, "
                            "URLs up to 60000 bytes, real caller processes whose command line / user / exe name put a multi-byte character across byte 4096 of the texts the agent builds (denied and allowed); observer = "
                            "process-wide panic hook (location), each request must get an HTTP response and a probe request must be served afterwards; layer 3: the key keeper against hostile host documents with notifications aimed at the "
                            "end of its poll interval; layer 4: thousands of clients that send a valid request and disconnect 0-2 ms later (handler futures dropped at arbitrary awaits) while patient probes and the 5 ms status task "
                            "run: no panic, probes served, status file still rewritten. non-trivial = input crossing a cut with a multi-byte character or "
                            "containing non-ASCII header bytes; distinct by (site, alignment, width)")
    if tier == "thorough":
        from .. import miri
        mr = common.rng("c13-miri")
        corpus = [{"site": "write_event", "text": t} for t, _ in boundary_strings(mr, 4096)[::2]] + [{"site": "status", "text": t} for t, _ in boundary_strings(mr, 1024)[::2]]
        miri.run({"truncation": corpus}, [], rep)
    args = [{"shard": 0, "tier": tier, "layer": "sites"}, {"shard": 1, "tier": tier, "layer": "e2e"}]
    if tier == "thorough":
        # the memcheck slices run the quick-tier workload (valgrind costs 25-50x; the thorough workload under it outlived the watchdog)
        args += [{"shard": 0, "tier": "quick", "layer": "sites", "memcheck": True}, {"shard": 1, "tier": "quick", "layer": "e2e", "memcheck": True}]
    for res in sandbox.run_many("vf.props.c13", "worker", args, workers=4, timeout=3000 if tier == "quick" else 6000):
        rep.merge_worker(res)
    iargs = [{"shard": i, "tier": tier, "threads": 8, "burst": 12, "rounds": 30 if tier == "quick" else 600, "actor_delays": i % 4 != 3, "rt_threads": [2, 4][i % 2]} for i in range(2 if tier == "quick" else 8)]
    for res in sandbox.run_many("vf.props.c13", "impatient_clients", iargs, workers=len(iargs), timeout=1500 if tier == "quick" else 9000):
        rep.merge_worker(res)
    rep.merge_worker(sandbox.run("vf.props.c13", "background_tasks", {"tier": tier, "interval_ms": 25, "rounds": 250 if tier == "quick" else 4000}, timeout=1500 if tier == "quick" else 9000))

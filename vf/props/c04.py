"""C04 - Relayed requests carry a valid HMAC over exactly what the host receives."""
import threading, time
from .. import common, sandbox, wproxy, rawhttp, gen_http, hostdocs, pool, mockhost
from ..oracles import sig

PATHS = ["/", "/machine", "/Machine/A8016240/49c242ba%2Dc18a%2D4f6c.%5Fz", "/metadata/instance", "/a%20b/C", "/vmAgentLog/x", "/machine/"]


def gen_query(r):
    """returns (query string or None, feature tag)"""
    kind = r.choice(["none", "plain", "plain", "dupkey", "duppair", "valueless", "prefix", "collision", "mixedcase", "empty-seg", "many"])
    if kind == "none":
        return None, kind
    if kind == "plain":
        return "comp=goalstate&api-version=2021-01-01", kind
    if kind == "dupkey":
        return r.choice(["comp=config&comp=again", "a=2&a=1&a=3", "k=v&K=w"]), kind
    if kind == "duppair":
        return r.choice(["a=1&a=1", "x=y&z=1&x=y"]), kind
    if kind == "valueless":
        return r.choice(["keyOnly", "a&b=1", "b=&a", "comp=config&keyOnly&type=x"]), kind
    if kind == "prefix":
        return r.choice(["b=1&ab=&a=b1", "a=b1&ab=", "ab=&a=b1", "a=b&ab", "a=bc&abc",
                         # a name that is a prefix of the next one, with a value that sorts ABOVE the character the longer name goes on with
                         "api=z&api-version=2018-02-01", "api-version=2018-02-01&api=z", "a=~&a0=1", "k=zz&k-x=a&kk=0", "comp=x&comp2=a&co=zz"]), kind
    if kind == "collision":
        return r.choice(["a=bc&ab=c", "ab=c&a=bc", "x=1&a=bc&ab=c", "k=vv&kv=v"]), kind
    if kind == "mixedcase":
        return r.choice(["Comp=GoalState&API-Version=X", "resource=https%3A%2F%2Fstorage.azure.com%2f&Type=A"]), kind
    if kind == "empty-seg":
        return r.choice(["&a=1&&b=2&", "=x&a=1", "a==1&b=1=2"]), kind
    ks = ["a", "b", "ab", "ba", "A", "c"]
    return "&".join("%s=%s" % (r.choice(ks), r.choice(["1", "2", "", "b", "B"])) for _ in range(r.randrange(3, 8))), kind


def gen_headers(r):
    hs = gen_http.headers(r)
    feat = []
    if r.random() < 0.15:
        k = r.choice(["x-rep", "X-Rep", "Accept"])
        hs += [(k, "v1"), (k.lower() if r.random() < 0.5 else k.upper(), "v2")]
        feat.append("repeated-header")
    if r.random() < 0.2:
        hs.append(("X-Pad", "\t  padded value \t"))
        feat.append("padded-value")
    r.shuffle(hs)
    return hs, feat


def proxied_worker(args, scratch):
    r = common.rng("c04", args["shard"], args["tier"])
    res = {"evaluations": 0, "nontrivial": [], "samples": [], "counts": {}, "violations": []}
    cnt = res["counts"]

    def bump(k, n=1):
        cnt[k] = cnt.get(k, 0) + n

    def handler(name, req):
        own = hostdocs.own_calls_handler(name, req)
        if own is not None and req.header("x-vf-id") is None:
            return own
        return wproxy.World.default_handler(name, req)
    w = wproxy.World(scratch, handler=handler, env={"GPA_VERIF_DELAY": "get_key:300:800", "GPA_VERIF_DELAY_SEED": str(args["shard"] + 11)} if args["shard"] % 2 == 0 else None)
    try:
        root = w.identity("root", "helper", [])
        keys = {}
        guid = "aaaaaaaa-0000-4000-8000-%012x" % args["shard"]
        secret = "%064x" % r.getrandbits(256)
        keys[guid] = secret
        w.key(guid, secret)
        if args["shard"] % 2 == 0:
            w.shim.call("event_reader_start", dir=scratch + "/events", interval_ms=5, delay_start=False)
        import threading
        slow = []

        def slow_upload(ci):
            # the request head arrives shortly before a full second, the body tail shortly after it: what the host receives must still verify
            try:
                c = w.open("other", root)
                vid = "c04-slow-%d-%d" % (args["shard"], ci)
                body = b"s" * 2000
                raw = rawhttp.build_request("POST", "/slow/upload?i=%d" % ci, [("x-vf-id", vid)], body)
                frac = time.time() % 1.0
                time.sleep((0.93 - frac) % 1.0)
                c.send(raw[:-1000])
                time.sleep(0.25)
                c.send(raw[-1000:])
                r_ = c.read_response(b"POST")
                c.close()
                slow.append((vid, r_.status))
            except Exception as e:  # noqa
                slow.append(("error", repr(e)))
        slow_threads = [threading.Thread(target=slow_upload, args=(i,)) for i in range(4)] if args["shard"] % 2 == 1 else []
        for t in slow_threads:
            t.start()
        for t in slow_threads:
            t.join()        # before any key change: these must verify under the one latched key
        for vid, st in slow:
            res["evaluations"] += 1
            if vid == "error":
                res["violations"].append(["slow-upload-failed", {"err": st}]); continue
            ups = w.upstream(vid)
            v, detail = sig.verify(ups[0], keys) if ups else ("not-relayed", None)
            bump("slow_uploads_crossing_a_second_boundary")
            res["nontrivial"].append(vid)
            if v not in ("ok", "ok-lenient"):
                res["violations"].append(["proxied-signature-%s:body-upload-crossing-a-second-boundary" % v,
                                          {"id": vid, "received_head": ups[0].raw_head.decode("latin-1") if ups else None, "detail": str(detail)}])
        conn, left = None, 0
        current_guid = guid
        for n in range(args["requests"]):
            vid = "c04-%d-%d" % (args["shard"], n)
            if n % 25 == 24:
                # the recorded secure-channel state changes while the key stays latched (in the key keeper the key cell and the state cell
                # are written at different moments of a transition): a latched key signs, whatever the recorded state says
                st = r.choice(["disabled", "wireserver", "wireserverandimds", "Unknown", "disabled"])
                w.shim.call("set_channel_state", state=st)
                bump("recorded_state_changes_with_key_latched:%s" % st)
            if n % 60 == 59:
                # the key keeper latches another key; connections that are open stay open
                current_guid = "aaaaaaaa-%04x-4000-8000-%012x" % (n, args["shard"])
                keys[current_guid] = "%064x" % r.getrandbits(256)
                w.key(current_guid, keys[current_guid])
                bump("key_changes_with_open_connections" if conn is not None and left > 0 else "key_changes")
            method = r.choice(["GET", "GET", "POST", "PUT", "DELETE", "PATCH"])
            q, qfeat = gen_query(r)
            path = r.choice(PATHS)
            exempt_try = r.random() < 0.06
            if exempt_try:
                method, path, q, qfeat = r.choice([("PUT", "/vmAgentLog", None, "exempt"), ("POST", "/machine/", "comp=telemetrydata", "exempt"),
                                                  ("PUT", "/VMAGENTLOG", None, "exempt"), ("POST", "/Machine/", "Comp=TelemetryData", "exempt")])
            elif r.random() < 0.06:
                # near misses of the two documented exemptions: everything but the exact pair (method, whole target) is signed
                method, path, q, qfeat = r.choice([("PUT", "/vmAgentLog", "comp=goalstate", "near-exempt"), ("PUT", "/vmAgentLog", "", "near-exempt"),
                                                  ("POST", "/machine/", "comp=telemetrydata&comp=health&type=x", "near-exempt"), ("POST", "/machine/", "type=x&COMP=TelemetryData", "near-exempt"),
                                                  ("POST", "/machine/", "comp=telemetrydata&", "near-exempt"), ("POST", "/machine", "comp=telemetrydata", "near-exempt"),
                                                  ("GET", "/vmAgentLog", None, "near-exempt"), ("PUT", "/machine/", "comp=telemetrydata", "near-exempt"),
                                                  ("POST", "/vmAgentLog", None, "near-exempt"), ("PUT", "/vmAgentLog/", None, "near-exempt")])
            target = path + ("?" + q if q is not None else "")
            hs, hfeat = gen_headers(r)
            hs.append(("x-vf-id", vid))
            body, chunked, bfeat = b"", None, "nobody"
            if method in ("POST", "PUT", "PATCH") and r.random() < 0.12:
                # upload clients (curl, .NET) announce the body with Expect: 100-continue; it is a client header like any other
                hs.append((r.choice(["Expect", "expect"]), "100-continue"))
                hfeat = hfeat + ["expect-100-continue"]
            if method in ("POST", "PUT", "PATCH"):
                form = r.random()
                if form < 0.2:
                    bfeat = "bodyless"
                    hs = [h for h in hs]
                elif form < 0.8:
                    body = gen_http.body(r, r.choice([50, 3000, 100 * 1024]))
                    bfeat = "body"
                else:
                    body = gen_http.body(r, 5000) or b"x"
                    chunked = [r.randrange(1, 2000) for _ in range(12)]
                    bfeat = "chunked"
            raw = rawhttp.build_request(method, target, hs, body, chunked=chunked)
            if bfeat == "bodyless" and r.random() < 0.5:
                raw = raw.replace(b"Content-Length: 0\r\n", b"")
                bfeat = "bodyless-no-cl"
            if conn is None or left <= 0:
                if conn:
                    conn.close()
                conn = w.open(r.choice(["wireserver", "imds", "hostga", "other"]), root)
                left = r.randrange(1, 12)
            left -= 1
            try:
                conn.send(raw)
                resp = conn.read_response(method.encode())
            except Exception as e:  # noqa
                if common.is_timeout(e):
                    res.setdefault("inconclusive", []).append("client socket watchdog (60 s) fired while waiting for the proxy; not a verdict") if not res.get("inconclusive") else None
                else:
                    res["violations"].append(["no-response", {"id": vid, "err": repr(e), "target": target, "method": method}])
                conn.close(); conn = None
                continue
            res["evaluations"] += 1
            ups = w.upstream(vid)
            if resp.status != 200 or len(ups) != 1:
                res["violations"].append(["not-relayed", {"id": vid, "status": resp.status, "target": target, "method": method, "ups": len(ups)}])
                continue
            u = ups[0]
            verdict, detail = sig.verify(u, keys)
            feats = [qfeat, bfeat] + hfeat
            for f in feats:
                bump("feature:" + f)
            wit = {"id": vid, "method": method, "target": target, "client_headers": [[str(k), str(v)] for k, v in hs], "body_len": len(body), "features": feats,
                   "received_head": u.raw_head.decode("latin-1"), "verdict": verdict, "detail": str(detail)}
            if sig.is_exempt(u.method, u.target):
                bump("exempt")
                continue
            bump("verdict:" + verdict)
            if verdict in ("ok", "ok-lenient") and detail[0] != current_guid:
                res["violations"].append(["proxied-request-signed-with-a-key-that-is-no-longer-latched", dict(wit, latched=current_guid)])
            elif verdict == "ok":
                pass
            elif verdict == "ok-lenient":
                bump("ambiguous:%s" % "/".join(detail[1]))
            else:
                cls = qfeat if qfeat in ("collision", "prefix", "duppair") else ("repeated-header" if "repeated-header" in hfeat else bfeat)
                res["violations"].append(["proxied-signature-%s:%s" % (verdict, cls), wit])
            if len(sig.query_pairs(u.target)) >= 2 or len(hs) >= 3 or body:
                res["nontrivial"].append(common.sha([method, target, sorted((str(k).lower(), str(v)) for k, v in hs if k != "x-vf-id"), len(body)]))
            if len(res["samples"]) < 2 and qfeat in ("prefix", "dupkey", "valueless"):
                res["samples"].append(wit)
        if conn:
            conn.close()
        # the agent's own calls while the key keeper replaces the key at a high rate: announced id and MAC must belong together
        if args["shard"] % 2 == 0:
            rot = []
            for i in range(400):
                g = "aaaaaaaa-ffff-4000-8000-%012x" % (args["shard"] * 1000 + i)
                keys[g] = "%064x" % r.getrandbits(256)
                rot.append({"authorizationScheme": "Azure-HMAC-SHA256", "guid": g, "incarnationId": i, "issued": "2024-01-01T00:00:00Z", "key": keys[g]})
            w.shim.call("rotate_keys", timeout=120, keys=rot, period_us=2500, clear_every=0)
            bump("own_call_phase_key_generations", len(rot))
        # the agent's own calls (goal state, shared config, instance metadata) signed by build_request
        time.sleep(0.3)
        for name in ("wireserver", "imds"):
            for u in w.mocks[name].snapshot():
                if u.header("x-vf-id") is not None:
                    continue
                res["evaluations"] += 1
                if sig.is_exempt(u.method, u.target):
                    bump("own_exempt"); continue
                verdict, detail = sig.verify(u, keys)
                bump("own:%s:%s" % (u.target.split(b"?")[0].decode()[:24], verdict))
                if verdict not in ("ok", "ok-lenient"):
                    res["violations"].append(["own-call-signature-%s" % verdict, {"head": u.raw_head.decode("latin-1"), "detail": str(detail)}])
                else:
                    res["nontrivial"].append(common.sha(["own", u.target.decode()]))
        for p in w.shim.panics():
            res["violations"].append(["panic:%s" % p.get("location"), p])
    finally:
        w.close()
    return res


def attest_worker(args, scratch):
    """the real KeyKeeper's attestation requests (POST /secure-channel/key/<guid>/key-attestation) verified at the mock"""
    import os
    from .. import wsmock, shim as shimmod
    res = {"evaluations": 0, "nontrivial": [], "samples": [], "counts": {}, "violations": []}
    r = common.rng("c04-attest", args["tier"])
    key_dir = os.path.join(scratch, "keys")
    ws = wsmock.WsMock("168.63.129.16", 80, rng=r, key_dir=key_dir)
    ws.version = "1.0"; ws.state_v1 = "Wireserver"
    ws.gate_at = 1
    sh = shimmod.Shim(scratch + "/shim", runtime="paused")
    try:
        sh.call("init", log_dir=scratch + "/logs", log_level="Info")
        sh.call("key_keeper_start", base_url="http://168.63.129.16:80/", key_dir=key_dir, log_dir=scratch + "/logs", interval_ms=5)
        for i in range(args["rounds"]):
            if not ws.gate_reached.wait(20):
                res.setdefault("inconclusive", []).append("key keeper stopped polling"); break
            ws.latched = None      # the host forgot the latch: the guest must acquire and attest a new key
            ws.release()
        ws.gate_reached.wait(20)
        attests = [u for u in ws.mock.snapshot() if u.target.endswith(b"/key-attestation")]
        for u in attests:
            res["evaluations"] += 1
            verdict, detail = sig.verify(u, ws.issued)
            res["counts"]["own:attestation:" + verdict] = res["counts"].get("own:attestation:" + verdict, 0) + 1
            guid_in_url = u.target.split(b"/")[3].decode().lower()
            if verdict not in ("ok", "ok-lenient") or detail[0] != guid_in_url:
                res["violations"].append(["attestation-signature-%s" % verdict, {"head": u.raw_head.decode("latin-1"), "detail": str(detail)}])
            else:
                res["nontrivial"].append("attest-" + guid_in_url)
        if not attests:
            res.setdefault("inconclusive", []).append("no attestation request observed")
    finally:
        ws.close(); sh.close()
    return res


def route_equivalence(tier, rep):
    n = 4000 if tier == "quick" else 60000
    r = common.rng("c04-route", tier)
    items = []
    for i in range(n):
        q, qfeat = gen_query(r)
        path = r.choice(PATHS)
        url = "http://168.63.129.16:80" + path + ("?" + q if q is not None else "")
        hs = {k: v for k, v in gen_http.headers(r)}     # some values carry leading/trailing blanks (the agent itself sends 'Metadata: True ')
        if r.random() < 0.3:
            hs["Metadata"] = "True "
        method = r.choice(["GET", "POST", "PUT", "DELETE"])
        body = gen_http.body(r, 2000) if method in ("POST", "PUT") and r.random() < 0.8 else None
        key = "%064x" % r.getrandbits(256)
        guid = "bbbbbbbb-0000-4000-8000-%012x" % i
        items.append({"method": method, "url": url, "headers": hs, "body": body.hex() if body is not None else None, "key": key, "key_guid": guid, "qfeat": qfeat})
    p = pool.ShimPool(n=6)
    try:
        built = [x for b in p.map("build_request_batch", [items[i:i + 500] for i in range(0, n, 500)]) for x in b]
        sig_items = []
        for it, bres in zip(items, built):
            if "err" in bres or bres.get("panic"):
                sig_items.append({"method": "GET", "uri": "/", "headers": [], "body": ""})
                continue
            sig_items.append({"method": bres["method"], "uri": bres["uri"], "headers": bres["headers"], "body": it["body"] or ""})
        sigs = [x for b in p.map("sig_input_batch", [sig_items[i:i + 500] for i in range(0, n, 500)]) for x in b]
        panics = p.panics()
    finally:
        p.close()
    for it, bres, sres in zip(items, built, sigs):
        rep.evaluated()
        if bres.get("panic") or sres.get("panic"):
            rep.violation("route-panic", it); continue
        if "err" in bres:
            rep.count("route_rejected"); continue
        req = mockhost.Req()
        req.method = bres["method"].encode()
        req.target = bres["uri"].encode()
        req.headers = [(k.encode(), bytes.fromhex(v)) for k, v in bres["headers"]]
        req.body = bytes.fromhex(it["body"]) if it["body"] else b""
        verdict, detail = sig.verify(req, {it["key_guid"]: it["key"]})
        rep.count("route_build_request:" + verdict)
        if verdict not in ("ok", "ok-lenient"):
            rep.violation("own-route-signature-%s:%s" % (verdict, it["qfeat"]), {"case": it, "built": bres})
            continue
        if verdict == "ok-lenient":
            rep.count("ambiguous:%s" % "/".join(detail[1]))
        # same request through the proxy's canonicaliser must give the same MAC
        got = [bytes.fromhex(v) for k, v in bres["headers"] if k.lower() == "x-ms-azure-host-authorization"][0].split(b" ")[2]
        via_proxy_route = sig.mac(it["key"], bytes.fromhex(sres["input"]))
        if via_proxy_route != got:
            rep.violation("routes-disagree:%s" % it["qfeat"], {"case": it, "built": bres, "proxy_route_input": bytes.fromhex(sres["input"]).decode("latin-1")})
        rep.nontrivial("route:" + common.sha([it["method"], it["url"], it["headers"], it["body"]]))
    for pn in panics:
        rep.violation("panic:%s" % pn.get("location"), pn)


def run(tier, rep):
    wproxy.build_helper()
    rep.coverage["rule"] = ("proxied route: generated requests (methods, percent-escaped/mixed-case paths, query classes {dup keys, dup pairs, valueless, prefix keys, "
                            "concatenation collisions, mixed case, empty segments}, shuffled/padded/repeated headers, bodies 0..100KiB incl. binary, body-less POST/PUT, chunked) through the real "
                            "ProxyServer with a latched key; the mock host's raw bytes are verified with an independent canonicaliser + hmac/sha256. own route: goal state / shared config / "
                            "IMDS calls of the real EventReader verified the same way; route equivalence: build_request's MAC == HMAC over as_sig_input of the same request. "
                            "non-trivial = signed request with >=2 query pairs or >=3 client headers or a body; distinct by hash of (method, target, headers, body length)")
    route_equivalence(tier, rep)
    shards = 6 if tier == "quick" else 16
    args = [{"shard": i, "tier": tier, "requests": 700 if tier == "quick" else 9000} for i in range(shards)]
    for res in sandbox.run_many("vf.props.c04", "proxied_worker", args, workers=shards, timeout=1500 if tier == "quick" else 9000):
        rep.merge_worker(res)
    if tier == "thorough":
        from .. import miri
        mr = common.rng("c04-miri")
        corpus = []
        for i in range(120):
            q, _ = gen_query(mr)
            target = mr.choice(PATHS) + ("?" + q if q is not None else "")
            hs, _ = gen_headers(mr)
            hs = [(k, v) for k, v in hs if k.lower() not in ("x-rep",)]
            body = gen_http.body(mr, 300)
            method = mr.choice(["GET", "POST", "PUT"])
            recv = [(k.encode(), v.strip().encode()) for k, v in hs]
            accepted = [x.hex() for _, x in sig.strings_to_sign(method.encode(), target.encode(), recv, body)]
            corpus.append({"method": method, "uri": target, "headers": [[k, v.strip().encode().hex()] for k, v in hs], "body": body.hex(), "accepted": accepted})
        miri.run({"sig": corpus}, [], rep)
    rep.merge_worker(sandbox.run("vf.props.c04", "attest_worker", {"tier": tier, "rounds": 40 if tier == "quick" else 400}, timeout=600 if tier == "quick" else 5400))
    rep.assumptions += ["order of query pairs in the canonical string: (key,value) order and key+value-concatenation order both accepted; exact duplicate pairs once or as received",
                        "repeated header names: any of last/first/joined/each accepted (counted as ambiguous)",
                        "header values with bytes >= 0x80 are exercised by C13, not here"]

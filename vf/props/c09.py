"""C09 - Agent state converges to the host's latest secure-channel status."""
import json, os, time
from .. import common, sandbox, wproxy, wsmock, gen_rbac, shim as shimmod, standin

KEY_DIR = "/var/lib/azure-proxy-agent/keys"
POLICY_KEYS = {  # destination_entry bytes (hex) -> endpoint, built here from the documented layout: ip[4 x u32], port (network order in a u32 slot), protocol
    "wireserver": bytes([168, 63, 129, 16]) + b"\0" * 12 + (80).to_bytes(2, "big") + b"\0\0" + (6).to_bytes(4, "little"),
    "hostga": bytes([168, 63, 129, 16]) + b"\0" * 12 + (32526).to_bytes(2, "big") + b"\0\0" + (6).to_bytes(4, "little"),
    "imds": bytes([169, 254, 169, 254]) + b"\0" * 12 + (80).to_bytes(2, "big") + b"\0\0" + (6).to_bytes(4, "little"),
}
POLICY_VALUE = bytes([127, 0, 0, 1]) + b"\0" * 12 + (3080).to_bytes(2, "big") + b"\0\0" + (6).to_bytes(4, "little")


def policy_map(vdir):
    out = {}
    d = os.path.join(vdir, "policy")
    names = set(os.listdir(d)) if os.path.isdir(d) else set()
    for ep, key in POLICY_KEYS.items():
        out[ep] = key.hex() in names
        if out[ep]:
            with open(os.path.join(d, key.hex()), "rb") as f:
                if f.read() != POLICY_VALUE:
                    out[ep] = "wrong-value"
    extra = names - {k.hex() for k in POLICY_KEYS.values()}
    if extra:
        out["unexpected_keys"] = sorted(extra)
    return out


def gen_item(r, mode):
    doc = gen_rbac.gen_doc(r, dup_ok=False, mode=mode, sections_missing_ok=False)
    doc["id"] = "h-" + common.sha(doc)   # new id = hash of content, as the host contract says
    return doc


def expected_modes(ws):
    if ws.version == "1.0":
        return {"wireserver": True, "imds": True, "hostga": True}
    def on(ep):
        it = ws.rules.get(ep)
        return it is not None and it["mode"].lower() != "disabled"
    return {"wireserver": on("wireserver"), "imds": on("imds"), "hostga": on("wireserver")}


def host_disabled(ws):
    if ws.version == "1.0":
        return ws.state_v1.lower() == "disabled"
    return (not ws.enabled) or not ws.rules


def reported_state(ws):
    """the channel state the host reports, independent of how the agent spells it"""
    if ws.version == "1.0":
        return ("v1", ws.state_v1.lower())
    if host_disabled(ws):
        return ("v1", "disabled")
    def mode(ep):
        it = ws.rules.get(ep)
        return it["mode"].lower() if it else "disabled"
    return ("v2", mode("wireserver"), mode("imds"))


def rules_digest(item):
    if item is None:
        return None
    return {"id": item["id"], "mode": item["mode"].lower() if isinstance(item["mode"], str) else item["mode"]}


def worker(args, scratch):
    res = {"evaluations": 0, "nontrivial": [], "samples": [], "counts": {}, "violations": []}
    cnt = res["counts"]

    def bump(k, n=1):
        cnt[k] = cnt.get(k, 0) + n
    for h in range(args["histories"]):
        r = common.rng("c09", args["shard"], h, args["tier"])
        hroot = os.path.join(scratch, "h%d" % h)
        vdir = os.path.join(hroot, "standin")
        os.makedirs(vdir + "/audit")
        key_dir = os.path.join(hroot, "keys")
        ws = wsmock.WsMock("168.63.129.16", 80, rng=r, key_dir=key_dir)
        if h % 5 == 3:
            ws.guid_case = "short"        # key ids like "k1", "7": what a key id looks like is the host's business
        elif h % 5 == 4:
            ws.guid_case = "upper"
        ws.gate_at = 1
        sh = shimmod.Shim(os.path.join(hroot, "shim"), runtime="paused", verif_dir=vdir)
        trace = []
        try:
            sh.call("init", log_dir=os.path.join(hroot, "logs"), log_level="Info")
            sh.call("key_keeper_start", base_url="http://168.63.129.16:80/", key_dir=key_dir, log_dir=os.path.join(hroot, "logs"), interval_ms=5)
            if not ws.gate_reached.wait(20):
                res.setdefault("inconclusive", []).append("key keeper never polled"); continue
            prev = sh.call("kk_snapshot")
            prev_policy = policy_map(vdir)
            last_reported = None
            maybe_acted_on = set()     # states reported in polls that failed part-way since the last complete poll: the agent may have acted on them (retry policy is its own)
            steps = r.randrange(3, args["max_steps"])
            feats = set()
            for step in range(steps):
                # ---- the host's answer for this poll
                act = r.random()
                if act < 0.25:
                    ws.version = r.choice(["1.0", "2.0"])
                if ws.version == "1.0":
                    if r.random() < 0.5:
                        ws.state_v1 = r.choice(["Disabled", "Wireserver", "WireserverAndImds", "wireserver", "DISABLED"])
                    ws.rules = {}
                else:
                    if r.random() < 0.3:
                        ws.enabled = not ws.enabled; feats.add("flip")
                    for ep in ("wireserver", "imds"):
                        c = r.random()
                        if c < 0.35:
                            ws.rules[ep] = gen_item(r, r.choice(["disabled", "audit", "enforce"])); feats.add("replace")
                        elif c < 0.45:
                            ws.rules.pop(ep, None); feats.add("remove")
                    if "wireserver" in ws.rules and r.random() < 0.5:
                        ws.rules["hostga"] = gen_item(r, ws.rules["wireserver"]["mode"])
                    elif r.random() < 0.3:
                        ws.rules.pop("hostga", None)
                    if "hostga" in ws.rules and ("wireserver" not in ws.rules or ws.rules["hostga"]["mode"] != ws.rules["wireserver"]["mode"]):
                        ws.rules.pop("hostga")
                kev = r.random()
                if kev < 0.08 and ws.latched:
                    ws.latched = None; feats.add("host-forgot-latch")
                elif kev < 0.16:
                    k = ws.new_key(); ws.latched = k["guid"]; feats.add("host-rotated-key-unknown-to-guest")
                elif kev < 0.22:
                    k = ws.new_key(); ws.latched = k["guid"]; feats.add("host-key-present-locally")
                    os.makedirs(key_dir, exist_ok=True)
                    with open(os.path.join(key_dir, k["guid"] + ".key"), "w") as f:
                        json.dump(k, f)
                fault = None
                fr = r.random()
                if fr < 0.12:
                    fault = ("status", r.choice([{"kind": "status", "code": 500}, {"kind": "status", "code": 404}, {"kind": "reset"},
                                                 {"kind": "body", "body": b"{not json"}, {"kind": "body", "body": b'{"version":"2.0"}'},
                                                 {"kind": "body", "body": json.dumps({"authorizationScheme": "Azure-HMAC-SHA256", "keyDeliveryMethod": "http", "version": "1.0", "secureChannelState": "bogus"}).encode()},
                                                 # a document that carries the OTHER version's field instead of its own is invalid too
                                                 {"kind": "body", "body": json.dumps({"authorizationScheme": "Azure-HMAC-SHA256", "keyDeliveryMethod": "http", "version": "2.0", "secureChannelState": "Wireserver"}).encode()},
                                                 {"kind": "body", "body": json.dumps({"authorizationScheme": "Azure-HMAC-SHA256", "keyDeliveryMethod": "http", "version": "1.0", "secureChannelEnabled": True}).encode()},
                                                 {"kind": "body", "body": json.dumps({"authorizationScheme": "Azure-HMAC-SHA256", "keyDeliveryMethod": "http", "version": "2.0", "secureChannelState": "WireserverAndImds", "keyGuid": None}).encode()}]))
                elif fr < 0.2:
                    fault = ("acquire", r.choice([{"kind": "status", "code": 500}, {"kind": "body", "body": b'{"guid": 5}'}, {"kind": "reset"}]))
                elif fr < 0.27:
                    fault = ("attest", r.choice([{"kind": "status", "code": 500}, {"kind": "status", "code": 403}]))
                if fault:
                    ws.fault(fault[0], fault[1]); feats.add("fault-" + fault[0])
                acq0, att0 = ws.count("acquire"), ws.count("attest")
                answer = {"version": ws.version, "state_v1": ws.state_v1, "enabled": ws.enabled, "rules": {k: rules_digest(v) for k, v in ws.rules.items()},
                          "latched_before": ws.latched, "fault": fault[0] if fault else None}
                # ---- run exactly one poll
                ws.release()
                if not ws.gate_reached.wait(30):
                    res.setdefault("inconclusive", []).append("poll did not complete (history %d step %d)" % (h, step)); break
                snap = sh.call("kk_snapshot")
                pol = policy_map(vdir)
                res["evaluations"] += 1
                status_fault_consumed = fault and fault[0] == "status"
                leftover = {k: len(v) for k, v in ws.faults.items() if v}
                for q in ws.faults.values():
                    q.clear()
                used_fault = fault is not None and fault[0] not in leftover
                wit = {"history": h, "step": step, "host_answer": answer, "trace": trace[-4:], "snapshot": {k: (v if "rules" not in k else (v or {}).get("id") if isinstance(v, dict) else v) for k, v in snap.items()},
                       "policy_map": pol, "fault_used": used_fault}
                trace.append({"answer": answer, "state": snap["state"], "key": snap["key_guid"]})
                if status_fault_consumed and used_fault:
                    bump("polls_with_failed_status")
                    if snap != prev or pol != prev_policy:
                        res["violations"].append(["failed-status-poll-changed-state", dict(wit, before=str(prev)[:600])])
                    if ws.count("acquire") != acq0 or ws.count("attest") != att0:
                        res["violations"].append(["failed-status-poll-contacted-key-endpoints", wit])
                elif used_fault:
                    bump("polls_with_partial_failure")
                    maybe_acted_on.add(reported_state(ws))
                    if snap["key_value"] is not None and snap["key_value"] not in ws.issued.values():
                        res["violations"].append(["key-not-issued-by-host", wit])
                else:
                    bump("complete_polls")
                    exp_dis = host_disabled(ws)
                    # rules enforced = rules of the latest document
                    for ep in ("wireserver", "imds", "hostga"):
                        want = ws.rules.get(ep) if ws.version == "2.0" else None
                        got = snap[ep + "_rules"]
                        got_id = snap[ep + "_rule_id"]
                        if want is None:
                            if got is not None or got_id != "":
                                res["violations"].append(["rules-not-cleared-when-document-carries-none:%s" % ep, wit])
                        else:
                            if got is None or got.get("id") != want["id"] or got_id != want["id"]:
                                res["violations"].append(["rules-not-those-of-latest-document:%s" % ep, wit])
                            elif got.get("mode", "").lower() != want["mode"].lower() or sorted(got.get("privileges", {}).keys()) != sorted(p["name"] for p in (want.get("rules") or {}).get("privileges") or []):
                                res["violations"].append(["rule-content-differs-from-latest-document:%s" % ep, wit])
                    if exp_dis:
                        if snap["key_guid"] is not None or snap["key_value"] is not None:
                            res["violations"].append(["key-held-while-channel-disabled", wit])
                        if snap["state"] != "disabled":
                            res["violations"].append(["state-not-disabled", wit])
                    else:
                        if ws.latched is None or snap["key_guid"] != ws.latched or snap["key_value"] != ws.issued.get(ws.latched):
                            res["violations"].append(["key-is-not-the-one-the-host-latched", dict(wit, host_latched=ws.latched)])
                        if snap["state"] in ("disabled", "Unknown"):
                            res["violations"].append(["state-disabled-or-unknown-while-channel-enabled", wit])
                    em = expected_modes(ws)
                    matches = {k: pol.get(k) for k in em} == em and "unexpected_keys" not in pol
                    if reported_state(ws) != last_reported and reported_state(ws) not in maybe_acted_on:
                        bump("polls_with_reported_state_change")
                        if not matches:
                            res["violations"].append(["redirect-policy-does-not-match-modes-after-state-change", dict(wit, expected=em)])
                    elif maybe_acted_on - {last_reported}:
                        # between the last complete poll and this one the host reported other states in polls that failed part-way
                        # (acquire/attest): whether the agent acted on those (e.g. by retrying the failed step) is not fixed by the
                        # statement, so it may see a change now or not - either it leaves the policy alone or it sets it to the modes
                        bump("polls_after_partial_failures_with_ambiguous_state_change")
                        if pol != prev_policy and not matches:
                            res["violations"].append(["redirect-policy-does-not-match-modes-after-state-change", dict(wit, expected=em)])
                    elif pol != prev_policy:
                        res["violations"].append(["redirect-policy-changed-without-state-change", dict(wit, before=prev_policy)])
                    last_reported = reported_state(ws)
                    maybe_acted_on.clear()
                if snap["state"] != prev["state"]:
                    bump("state_changes")
                prev, prev_policy = snap, pol
            if {"replace", "flip"} <= feats and any(f.startswith("fault-") for f in feats):
                res["nontrivial"].append(common.sha([t["answer"] for t in trace]))
            for f in feats:
                bump("feature:" + f)
            if len(res["samples"]) < 1 and len(trace) > 3:
                res["samples"].append({"history": trace[:6]})
            ev = standin.events(vdir)
            bump("policy_update_events", sum(1 for e in ev if e["op"] == "policy"))
            for p in sh.panics():
                res["violations"].append(["panic:%s" % p.get("location"), p])
        finally:
            ws.close()
            sh.close()
    return res


def run(tier, rep):
    rep.coverage["rule"] = ("the real KeyKeeper (paused tokio clock) polls a gated mock WireServer on 168.63.129.16:80 in lock-step; each history is a sequence of 3-12 (thorough <=40) host answers drawn from: protocol 1.0/2.0, "
                            "channel enabled/disabled flips, per-endpoint rule documents replaced (id = hash of content)/removed/unchanged, host forgets/rotates the latched key (with or without the key present locally), "
                            "and per-step faults (status: 500/404/reset/invalid JSON/invalid document; acquire: 500/malformed/reset; attest: 500/403). after every complete poll the public getters and the stand-in policy map "
                            "must equal a function of the latest answer alone; a poll whose status step failed must change nothing. non-trivial = history with a rule replacement, an enable flip and a fault; distinct by history hash")
    shards = 8 if tier == "quick" else 16
    args = [{"shard": i, "tier": tier, "histories": 60 if tier == "quick" else 600, "max_steps": 13 if tier == "quick" else 41} for i in range(shards)]
    for res in sandbox.run_many("vf.props.c09", "worker", args, workers=shards, timeout=3000):
        rep.merge_worker(res)
    rep.assumptions += ["HostGAPlugin follows the WireServer mode (the documented short-term behaviour); generated hostga rules always carry the wireserver mode",
                        "hook H1 records redirect-policy updates in kernel byte format; the policy keys/values expected here are built from the documented layout, not from the Rust code"]

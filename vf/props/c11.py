"""C11 - Enforce blocks, audit forwards and records; every denial is recorded once."""
import collections, json, os, threading, time
from .. import common, sandbox, wproxy, rawhttp, gen_rbac, gen_http
from ..oracles import rbac

ALLOW_ALL = {"defaultAccess": "allow", "mode": "enforce", "id": "allow-all"}
VOLATILE = {b"x-ms-azure-host-date", b"x-ms-azure-host-authorization", b"x-vf-id"}


def norm_upstream(u):
    hs = sorted((k.lower(), v) for k, v in u.headers if k.lower() not in VOLATILE)
    return (u.method, u.target, tuple(hs), u.body)


def summary_multiset(entries):
    c = collections.Counter()
    for e in entries:
        if e.get("responseStatus", "").startswith("403"):
            c[(e["userName"], e["ip"], e["port"], e.get("processFullPath"), e["processCmdLine"])] += e["count"]
    return c


def worker(args, scratch):
    r = common.rng("c11", args["shard"], args["tier"])
    res = {"evaluations": 0, "nontrivial": [], "samples": [], "counts": {}, "violations": []}
    cnt = res["counts"]
    lock = threading.Lock()

    def bump(k, n=1):
        with lock:
            cnt[k] = cnt.get(k, 0) + n
    def handler(name, req):
        vid = req.header("x-vf-id") or b""
        if vid.endswith(b"-hf"):
            return {"reset": True}      # the host drops the connection while answering this request
        if vid.endswith((b"-s401", b"-s403")):
            # the HOST refuses the relayed request with its own 401/403: that is the host's answer, not a denial by the proxy's rules
            return {"status": int(vid[-3:]), "headers": [("x-vf-echo", vid)], "body": b"host says no"}
        return wproxy.World.default_handler(name, req)
    # hook H3 in half of the shards: the status actor takes 0-3 ms per message (its task not being scheduled), which stretches the time between a
    # request's connection-count message and its denial message; the status task (40 ms) may publish in between and must catch up afterwards
    env = {"GPA_VERIF_DELAY": "actor_agent_status:300:3000", "GPA_VERIF_DELAY_SEED": str(args["shard"] + 21)} if args["shard"] % 2 == 1 else None
    w = wproxy.World(scratch, runtime="multi:8", handler=handler, env=env)
    endpoint = args["endpoint"]
    ip, port = wproxy.DESTS[endpoint]
    status_dir = scratch + "/status"
    try:
        w.shim.call("status_task_start", dir=status_dir, interval_ms=40)
        callers = [w.identity("root", "helper", []), w.identity("root", "tool", ["--x", "1"]), w.identity("alice", "tool", ["a"]), w.identity("bob", "python3", ["-m", "x"]),
                   w.identity("gidzero", "helper", ["zz"])]
        for rs in range(args["rulesets"]):
            doc = gen_rbac.gen_doc(r, dup_ok=False, mode="enforce", sections_missing_ok=False)
            for it in (doc.get("rules") or {}).get("identities") or []:
                if r.random() < 0.5:
                    c = r.choice(callers).claims()
                    for k in ("userName", "processName", "exePath", "groupName"):
                        it.pop(k, None)
                    it["userName"] = c["userName"]
            # the request/caller sequence (identical for every mode)
            seq = []
            base = [(r.randrange(len(callers)), r.choice(["GET", "POST", "DELETE"]), gen_rbac.gen_url(r)) for _ in range(args["distinct"])]
            for _ in range(args["requests"]):
                ci, method, url = r.choice(base)   # many identical requests -> counts
                hf = r.random()
                seq.append((ci, method, url, True if hf < 0.08 else (r.choice([401, 403]) if hf < 0.2 else False)))     # last: the host fails / refuses while answering this request
            reference_upstream = None
            for mode in ("allow-all", "enforce", "audit", "disabled"):
                # the host may spell the mode in any letter case
                spelled = r.choice([mode, mode.capitalize(), mode.upper(), mode[:2].upper() + mode[2:]])
                d = ALLOW_ALL if mode == "allow-all" else dict(doc, mode=spelled, id="%s-%d-%s" % (endpoint, rs, mode))
                w.rules(endpoint, d)
                w.shim.call("clear_summaries")
                tag = "c11-%d-%d-%s" % (args["shard"], rs, mode)
                results = [None] * len(seq)

                def run_slice(lo, hi):
                    for i in range(lo, hi):
                        ci, method, url, hostfault = seq[i]
                        vid = "%s-%d%s" % (tag, i, "-hf" if hostfault is True else ("-s%d" % hostfault if hostfault else ""))
                        try:
                            conn = w.open(endpoint, callers[ci])
                            body = b"b" * 10 if method == "POST" else b""
                            conn.send(rawhttp.build_request(method, url, [("x-vf-id", vid), ("x-k", "v")], body))
                            st = conn.read_response(method.encode()).status
                            conn.close()
                        except Exception as e:  # noqa
                            st = "error:%r" % (e,)
                        results[i] = st
                nthreads = args["threads"]
                step = (len(seq) + nthreads - 1) // nthreads
                ts = [threading.Thread(target=run_slice, args=(k * step, min(len(seq), (k + 1) * step))) for k in range(nthreads)]
                for t in ts: t.start()
                for t in ts: t.join()
                time.sleep(0.15)  # quiescence: summaries are added before the response is sent; status file interval 40ms
                upstream = {}
                for u in w.mocks[endpoint].snapshot():
                    vid = (u.header("x-vf-id") or b"").decode()
                    if vid.startswith(tag + "-"):
                        upstream.setdefault(int(vid[len(tag) + 1:].split("-")[0]), []).append(u)
                expected_denials = collections.Counter()
                ambiguous_keys = set()
                if any(common.is_timeout(x) for x in results):
                    # a client gave up after 60 s (machine overloaded): neither the statuses nor the counts of this replay can be judged
                    if not res.get("inconclusive"):
                        res.setdefault("inconclusive", []).append("client socket watchdog (60 s) fired while waiting for the proxy; not a verdict")
                    continue
                for i, (ci, method, url, hostfault) in enumerate(seq):
                    res["evaluations"] += 1
                    who = callers[ci]
                    claims = who.claims()
                    root_only = endpoint in ("wireserver", "hostga") and not who.elevated
                    key = (who.user, ip, port, who.exe, who.cmdline)
                    wit = {"endpoint": endpoint, "mode": mode, "caller": claims, "method": method, "url": url, "status": results[i], "relayed": len(upstream.get(i, [])), "rules": d}
                    if root_only:
                        expected_denials[key] += 1
                        if results[i] != 403 or upstream.get(i):
                            res["violations"].append(["non-elevated-not-refused", wit])
                        continue
                    dec, _ = rbac.decide(d, claims, url)
                    if dec is None:
                        ambiguous_keys.add(key)
                        bump("ambiguous_excluded"); continue
                    denied = not dec
                    if denied and mode in ("enforce", "audit"):
                        expected_denials[key] += 1
                        res["nontrivial"].append(common.sha([endpoint, mode, key, url]))
                    if denied and mode == "enforce":
                        bump("denied_enforce")
                        if results[i] != 403:
                            res["violations"].append(["enforce-denial-not-403", wit])
                        if upstream.get(i):
                            res["violations"].append(["enforce-denial-relayed", wit])
                    elif hostfault is True:
                        # the host dropped the connection: the client gets a gateway error, the request did reach the host; a denial stays a denial
                        bump("host_fault_requests")
                        if denied and mode == "audit":
                            bump("denied_audit_with_host_fault")
                        if results[i] not in (502, 503) or len(upstream.get(i, [])) != 1:
                            res["violations"].append(["request-with-host-fault-not-handled-as-gateway-error", wit])
                    else:
                        if denied and mode == "audit":
                            bump("denied_audit_forwarded")
                        want_status = hostfault if hostfault else 200
                        if hostfault:
                            bump("requests_refused_by_the_host_itself")
                        if results[i] != want_status or len(upstream.get(i, [])) != 1:
                            res["violations"].append(["%s-not-forwarded" % ("audit-denial" if denied else "allowed-request"), wit])
                        elif reference_upstream is not None and mode in ("audit", "disabled"):
                            ref = reference_upstream.get(i)
                            if ref is not None and norm_upstream(upstream[i][0]) != ref:
                                res["violations"].append(["%s-request-relayed-differently-from-allowed-one" % mode, dict(wit, got=upstream[i][0].raw_head.decode("latin-1"))])
                if mode == "allow-all":
                    reference_upstream = {i: norm_upstream(us[0]) for i, us in upstream.items() if len(us) == 1}
                # conservation on the published summary: getter and status.json
                got = w.shim.call("summaries")
                ms = summary_multiset(got["failed"])
                for ak in ambiguous_keys:      # a caller with a request the reference cannot judge: its count is not compared
                    ms.pop(ak, None); expected_denials.pop(ak, None)
                if ms != expected_denials:
                    diff = {"missing": {str(k): v for k, v in (expected_denials - ms).items()}, "extra": {str(k): v for k, v in (ms - expected_denials).items()}}
                    sig = "failed-summary-%s:%s" % ("undercount" if (expected_denials - ms) and not (ms - expected_denials) else ("overcount" if (ms - expected_denials) and not (expected_denials - ms) else "mismatch"), mode)
                    res["violations"].append([sig, {"endpoint": endpoint, "mode": mode, "diff": diff, "rules": d}])
                bump("summary_getter_checks")
                bump("denials_recorded_total", sum(ms.values()))
                try:
                    # the status task rewrites the file every 40 ms; on a loaded machine the file may lag: poll (logical condition, generous watchdog)
                    t_w = time.time()
                    while True:
                        try:
                            with open(os.path.join(status_dir, "status.json")) as f:
                                sj = json.load(f)
                        except (OSError, ValueError):
                            sj = {}
                        fs = summary_multiset(sj.get("failedAuthenticateSummary", []))
                        for ak in ambiguous_keys:
                            fs.pop(ak, None)
                        if fs == expected_denials or time.time() - t_w > 20:
                            break
                        time.sleep(0.05)
                    if fs != expected_denials:
                        res["violations"].append(["status-file-failed-summary-mismatch:%s" % mode, {"endpoint": endpoint, "mode": mode,
                                                  "missing": {str(k): v for k, v in (expected_denials - fs).items()}, "extra": {str(k): v for k, v in (fs - expected_denials).items()}}])
                    bump("status_file_checks")
                except Exception as e:  # noqa
                    res.setdefault("inconclusive", []).append("status.json unreadable: %r" % (e,))
                if len(res["samples"]) < 2 and sum(expected_denials.values()):
                    res["samples"].append({"endpoint": endpoint, "mode": mode, "requests": len(seq), "expected_denials": {str(k): v for k, v in list(expected_denials.items())[:4]}})
        # ---- burst: several hundred denials at the same instant (more than the status actor's queue holds)
        deny_all = {"defaultAccess": "deny", "mode": "enforce", "id": "deny-all-%d" % args["shard"]}
        for mode in ("enforce", "audit"):
            w.rules(endpoint, dict(deny_all, mode=mode, id="burst-%s" % mode))
            w.shim.call("clear_summaries")
            nburst = args["burst"]
            who = callers[0]   # elevated, so only the rule decides
            conns = []
            for i in range(nburst):
                c = w.open(endpoint, who)
                conns.append(c)
            barrier = threading.Barrier(16)
            sts = [None] * nburst

            def fire(lo, hi):
                try:
                    barrier.wait(10)
                except Exception:
                    pass
                for i in range(lo, hi):
                    try:
                        conns[i].send(rawhttp.build_request("GET", "/burst?i=%d" % i, [("x-vf-id", "c11-burst-%s-%d" % (mode, i))]))
                    except Exception:
                        pass
                for i in range(lo, hi):
                    try:
                        sts[i] = conns[i].read_response().status
                    except Exception as e:  # noqa
                        sts[i] = "error"
                    conns[i].close()
            step = (nburst + 15) // 16
            ts = [threading.Thread(target=fire, args=(k * step, min(nburst, (k + 1) * step))) for k in range(16)]
            for t in ts: t.start()
            for t in ts: t.join()
            time.sleep(0.2)
            res["evaluations"] += nburst
            exp_status = 403 if mode == "enforce" else 200
            wrong = [x for x in sts if x != exp_status]
            if wrong:
                res["violations"].append(["burst-%s-wrong-status" % mode, {"statuses": wrong[:5], "count": len(wrong)}])
            ms = summary_multiset(w.shim.call("summaries")["failed"])
            total = sum(ms.values())
            bump("burst_denials_sent", nburst); bump("burst_denials_recorded", total)
            if total != nburst:
                res["violations"].append(["failed-summary-%s:burst-%s" % ("undercount" if total < nburst else "overcount", mode), {"sent": nburst, "recorded": total, "endpoint": endpoint}])
            res["nontrivial"].append(common.sha([endpoint, "burst", mode]))
        # ---- the same callers denied on all three endpoints in one history: WireServer and HostGAPlugin share an address and
        # differ only in the port, IMDS differs in the address; every denial must be recorded under the destination it was made to
        for mode in ("enforce", "audit"):
            for ep in wproxy.DESTS:
                if ep in ("wireserver", "hostga", "imds"):
                    w.rules(ep, dict(deny_all, mode=mode, id="cross-%s-%s" % (ep, mode)))
            w.shim.call("clear_summaries")
            expected = collections.Counter()
            plan = []
            for ci, who in enumerate(callers):
                for ei, ep in enumerate(("wireserver", "hostga", "imds")):
                    for k in range(1 + (ci + 2 * ei + args["shard"]) % 4):
                        plan.append((ci, ep, k))
            r.shuffle(plan)

            def cross(lo, hi):
                for ci, ep, k in plan[lo:hi]:
                    try:
                        conn = w.open(ep, callers[ci])
                        conn.send(rawhttp.build_request("GET", "/cross/%d?k=%d" % (ci, k), [("x-vf-id", "c11-cross-%s-%d-%s-%d" % (mode, ci, ep, k))]))
                        conn.read_response()
                        conn.close()
                    except Exception:  # noqa
                        bump("cross_client_errors")
            step = (len(plan) + 3) // 4
            ts = [threading.Thread(target=cross, args=(k * step, min(len(plan), (k + 1) * step))) for k in range(4)]
            for t in ts: t.start()
            for t in ts: t.join()
            time.sleep(0.15)
            for ci, ep, k in plan:
                who = callers[ci]
                eip, eport = wproxy.DESTS[ep]
                expected[(who.user, eip, eport, who.exe, who.cmdline)] += 1
            res["evaluations"] += len(plan)
            ms = summary_multiset(w.shim.call("summaries")["failed"])
            bump("cross_endpoint_denials_sent", len(plan)); bump("cross_endpoint_denials_recorded", sum(ms.values()))
            if ms != expected and not cnt.get("cross_client_errors"):
                res["violations"].append(["failed-summary-wrong-destination-or-count:cross-endpoint-%s" % mode,
                                          {"missing": {str(k): v for k, v in (expected - ms).items()}, "extra": {str(k): v for k, v in (ms - expected).items()}}])
            res["nontrivial"].append(common.sha(["cross-endpoint", mode, args["shard"]]))
        # ---- several requests with different verdicts on ONE keep-alive connection, and a caller that becomes another program
        # (execve in the same pid) between connections: every request is judged and recorded on its own
        ka_doc = {"defaultAccess": "deny", "id": "ka", "rules": {"privileges": [{"name": "pub", "path": "/public"}], "roles": [{"name": "ro", "privileges": ["pub"]}],
                                                                  "identities": [{"name": "root-only", "userName": "root"}], "roleAssignments": [{"role": "ro", "identities": ["root-only"]}]}}
        for mode in ("enforce", "audit"):
            w.rules("imds", dict(ka_doc, mode=mode, id="ka-" + mode))
            w.shim.call("clear_summaries")
            who = callers[0]
            exe_caller = w.identity("root", "firstprog", ["--ka", mode], exec_capable=True)
            expected = collections.Counter()
            conn = w.open("imds", who)
            plan = [r.choice(["/public/a", "/secret/b", "/public/c?x=1", "/other"]) for _ in range(12)]
            plan[0] = "/public/first"      # the first verdict on the connection is 'allowed'
            plan[1] = "/secret/second"
            for k, url in enumerate(plan):
                vid = "c11-ka-%s-%d-%d" % (mode, args["shard"], k)
                denied = not url.startswith("/public")
                for attempt in (0, 1):
                    try:
                        conn.send(rawhttp.build_request("GET", url, [("x-vf-id", vid)]))
                        st = conn.read_response().status
                        break
                    except Exception as e:  # noqa
                        st = "error:%r" % (e,)
                        try:
                            conn.close()
                        except Exception:  # noqa
                            pass
                        conn = w.open("imds", who)
                        if attempt == 0 and k > 0 and not common.is_timeout(st):
                            # the agent had closed the kept-alive connection after its previous answer (it may, e.g. after a denial):
                            # the request never reached a handler - the same request on a new connection of the same caller
                            bump("kept_alive_connection_found_closed")
                            continue
                        break
                res["evaluations"] += 1
                relayed = bool(w.upstream(vid))
                wit = {"mode": mode, "position_on_connection": k, "url": url, "status": st, "relayed": relayed, "earlier_urls": plan[:k]}
                if denied:
                    expected[(who.user, wproxy.DESTS["imds"][0], wproxy.DESTS["imds"][1], who.exe, who.cmdline)] += 1
                    if mode == "enforce" and (st != 403 or relayed):
                        res["violations"].append(["enforce-denial-not-403" if st != 403 else "enforce-denial-relayed", wit])
                    if mode == "audit" and (st != 200 or not relayed):
                        res["violations"].append(["audit-denial-not-forwarded", wit])
                elif st != 200 or not relayed:
                    res["violations"].append(["allowed-request-not-forwarded", wit])
            conn.close()
            # the exec part: the same pid first runs a program, is denied; then runs another program, is denied again
            for gi in range(2):
                if gi:
                    exe_caller.exec_to("secondprog", ["--after-exec"])
                c2 = w.open("imds", exe_caller)
                c2.send(rawhttp.build_request("GET", "/secret/x%d" % gi, [("x-vf-id", "c11-kax-%s-%d-%d" % (mode, args["shard"], gi))]))
                c2.read_response()
                c2.close()
                expected[(exe_caller.user, wproxy.DESTS["imds"][0], wproxy.DESTS["imds"][1], exe_caller.exe, exe_caller.cmdline)] += 1
                res["evaluations"] += 1
            time.sleep(0.15)
            ms = summary_multiset(w.shim.call("summaries")["failed"])
            bump("keepalive_mixed_verdict_requests", len(plan))
            if ms != expected:
                res["violations"].append(["failed-summary-%s:keep-alive-and-exec-%s" % ("undercount" if (expected - ms) and not (ms - expected) else "mismatch", mode),
                                          {"missing": {str(k): v for k, v in (expected - ms).items()}, "extra": {str(k): v for k, v in (ms - expected).items()}, "plan": plan}])
            res["nontrivial"].append(common.sha(["keep-alive-mixed", mode, args["shard"]]))
        w.rules("imds", None)
        for p in w.shim.panics():
            res["violations"].append(["panic:%s" % p.get("location"), p])
    finally:
        w.close()
    return res


def lone_denials(args, scratch):
    """one denial at a time, nothing else going on, while the rules lookup of every request is slow (hook H3 on the key-keeper actor: the
    status task, here every 5 ms, publishes between the moment a request is counted and the moment its denial is recorded): each denial
    must still end up in the published status file - there is no later request that would make the agent publish again"""
    res = {"evaluations": 0, "nontrivial": [], "samples": [], "counts": {}, "violations": []}
    cnt = res["counts"]
    w = wproxy.World(scratch, runtime="multi:4", env={"GPA_VERIF_DELAY": "actor_key_keeper:1000:16000,actor_agent_status:500:4000", "GPA_VERIF_DELAY_SEED": str(args["shard"] + 5)})
    status_dir = scratch + "/status"
    try:
        w.shim.call("status_task_start", dir=status_dir, interval_ms=5)
        who = w.identity("alice", "tool", ["lone"])
        ip, port = wproxy.DESTS["imds"]
        key = (who.user, ip, port, who.exe, who.cmdline)
        for mode in ("enforce", "audit"):
            w.rules("imds", {"defaultAccess": "deny", "mode": mode, "id": "lone-" + mode, "rules": {"privileges": [], "roles": [], "identities": [], "roleAssignments": []}})
            w.shim.call("clear_summaries")
            for k in range(args["denials"]):
                c = w.open("imds", who)
                try:
                    c.send(rawhttp.build_request("GET", "/lone/%s/%d" % (mode, k), [("x-vf-id", "c11-lone-%s-%d" % (mode, k))]))
                    c.read_response()
                except Exception as e:  # noqa
                    if common.is_timeout(e):
                        res.setdefault("inconclusive", []).append("client socket watchdog (60 s) fired; not a verdict")
                        return res
                c.close()
                res["evaluations"] += 1
                t0, seen = time.time(), None
                while time.time() - t0 < 20:          # watchdog; the file follows within a few status rounds
                    try:
                        with open(os.path.join(status_dir, "status.json")) as f:
                            seen = summary_multiset(json.load(f).get("failedAuthenticateSummary", [])).get(key, 0)
                    except (OSError, ValueError):
                        seen = None
                    if seen == k + 1:
                        break
                    time.sleep(0.01)
                if seen != k + 1:
                    recorded = summary_multiset(w.shim.call("summaries")["failed"]).get(key, 0)
                    res["violations"].append(["status-file-failed-summary-mismatch:lone-denial-%s" % mode,
                                              {"denials_made": k + 1, "published_in_status_file": seen, "recorded_by_the_agent": recorded, "waited_s": round(time.time() - t0, 1)}])
                    break
            cnt["lone_denials_%s" % mode] = cnt.get("lone_denials_%s" % mode, 0) + args["denials"]
            res["nontrivial"].append("lone-%s-%d" % (mode, args["shard"]))
        for p in w.shim.panics():
            res["violations"].append(["panic:%s" % p.get("location"), p])
    finally:
        w.close()
    return res


def run(tier, rep):
    wproxy.build_helper()
    rep.coverage["rule"] = ("per endpoint (WireServer, HostGAPlugin, IMDS): generated rule sets; one request/caller sequence (few distinct requests repeated many times, 5 real caller processes, 8 concurrent "
                            "connections) replayed under allow-all, enforce, audit and disabled; oracles: enforce denial -> 403 and nothing upstream; audit denial -> relayed byte-identically (modulo id/date/MAC) to the "
                            "allow-all run; disabled -> rules not consulted; and conservation: the 403 entries of failedAuthenticateSummary (getter and published status.json) equal the multiset of denied requests "
                            "keyed by (user, ip, port, process path, command line); a burst of several hundred simultaneous denials; and a cross-endpoint history in which every caller is denied on all three endpoints (same address/different port, different address). non-trivial = denial under audit or enforce; distinct by (endpoint, mode, caller key)")
    eps = ["wireserver", "hostga", "imds"]
    shards = 6 if tier == "quick" else 15
    args = [{"shard": i, "tier": tier, "endpoint": eps[i % 3], "rulesets": 3 if tier == "quick" else 25, "requests": 240 if tier == "quick" else 1500,
             "distinct": 10, "threads": 8, "burst": 400 if tier == "quick" else 1200} for i in range(shards)]
    for res in sandbox.run_many("vf.props.c11", "worker", args, workers=shards, timeout=1800 if tier == "quick" else 10800):
        rep.merge_worker(res)
    for res in sandbox.run_many("vf.props.c11", "lone_denials", [{"shard": i, "tier": tier, "denials": 25 if tier == "quick" else 200} for i in range(2 if tier == "quick" else 6)], workers=6, timeout=900 if tier == "quick" else 5400):
        rep.merge_worker(res)
    rep.assumptions += ["refusals of non-elevated WireServer/HostGAPlugin callers are denials too and are counted likewise (in every mode)",
                        "421 entries (unattributed connections) are kept apart from the 403 multiset"]

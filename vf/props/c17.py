"""C17 - Agent upgrade is reversible: backup, install and restore reinstate files exactly."""
import hashlib, os, shutil, stat, subprocess, time
from .. import common, sandbox

NEEDS_AGENT = False
NEEDS_RUST = False
SYS = {"exe": "/usr/sbin/azure-proxy-agent", "cfg": "/etc/azure/proxy-agent.json", "ebpf": "/usr/lib/azure-proxy-agent/ebpf_cgroup.o",
       "unit": "/usr/lib/systemd/system/azure-proxy-agent.service"}
TOOL = "/opt/gpa-setup"
PKG = TOOL + "/ProxyAgent"
BK = PKG + "/Backup"
BKP = BK + "/Package"
STUB = "/vfstub"
ALLOWED_PREFIXES = [TOOL, STUB] + list(SYS.values())
ALLOWED_DIRS = ["/etc/azure", "/usr/lib/azure-proxy-agent", "/opt", "/usr", "/usr/sbin", "/usr/lib", "/usr/lib/systemd", "/usr/lib/systemd/system", "/etc", "/proc", "/dev"]
COMMANDS = [["backup"], ["install"], ["restore"], ["restore", "false"], ["restore", "true"], ["uninstall"], ["uninstall", "service"], ["uninstall", "package"], ["purge"]]


def sha(path):
    try:
        with open(path, "rb") as f:
            return hashlib.sha256(f.read()).hexdigest()[:16]
    except OSError:
        return None


def fake_exe(version, r):
    return ("#!/bin/sh\n# payload %s\nif [ \"$1\" = \"--version\" ]; then echo %s; fi\nexit 0\n" % ("%032x" % r.getrandbits(128), version)).encode()


class Root:
    def __init__(self, scratch, tag):
        self.base = os.path.join(scratch, tag)
        self.upper, self.work, self.root = self.base + "/upper", self.base + "/work", self.base + "/root"
        for d in (self.upper, self.work, self.root):
            os.makedirs(d)
        subprocess.run(["mount", "-t", "overlay", "overlay", "-o", "lowerdir=/,upperdir=%s,workdir=%s" % (self.upper, self.work), self.root], check=True)
        subprocess.run(["mount", "-t", "proc", "proc", self.root + "/proc"], check=True)
        subprocess.run(["mount", "--bind", "/dev", self.root + "/dev"], check=True)

    def p(self, path):
        return self.root + path

    def write(self, path, data, mode=0o644):
        os.makedirs(os.path.dirname(self.p(path)), exist_ok=True)
        with open(self.p(path), "wb") as f:
            f.write(data)
        os.chmod(self.p(path), mode)

    def run(self, argv, strace_out=None):
        env = {"PATH": STUB + ":/usr/local/sbin:/usr/local/bin:/usr/sbin:/usr/bin:/sbin:/bin", "HOME": "/root"}
        cmd = ["chroot", self.root, TOOL + "/proxy_agent_setup"] + argv
        if strace_out:
            cmd = ["strace", "-f", "-o", strace_out, "-e", "trace=openat,creat,rename,renameat,renameat2,unlink,unlinkat,mkdir,rmdir,chmod,fchmodat,chown,truncate,link,symlink"] + cmd
        return subprocess.run(cmd, env=env, stdout=subprocess.PIPE, stderr=subprocess.STDOUT, timeout=60)

    def upper_files(self):
        out = []
        for dp, dn, fn in os.walk(self.upper):
            rel = "/" + os.path.relpath(dp, self.upper) if dp != self.upper else ""
            if rel.startswith(("/proc", "/dev")):
                continue
            for f in fn:
                out.append((rel + "/" + f))
            for d in dn:
                p = os.path.join(dp, d)
                try:
                    st = os.lstat(p)
                    if stat.S_ISCHR(st.st_mode):   # whiteout of a directory
                        out.append(rel + "/" + d)
                except OSError:
                    pass
        return out

    def close(self):
        for m in (self.root + "/dev", self.root + "/proc", self.root):
            subprocess.run(["umount", "-l", m], stderr=subprocess.DEVNULL)
        shutil.rmtree(self.base, ignore_errors=True)


def tree(root):
    t = {k: sha(root.p(v)) for k, v in SYS.items()}
    for k, v in (("bk_exe", BKP + "/azure-proxy-agent"), ("bk_cfg", BKP + "/proxy-agent.json"), ("bk_ebpf", BKP + "/ebpf_cgroup.o"), ("bk_unit", BK + "/azure-proxy-agent.service")):
        t[k] = sha(root.p(v))
    return t


def model_step(t, cmd, pkg):
    """file-tree model of what each command does, per the statement. t: dict as produced by tree(); returns (new tree, systemctl expected?)"""
    t = dict(t)
    if cmd[0] == "backup":
        for k in ("exe", "cfg", "ebpf"):
            if t[k] is not None:
                t["bk_" + k] = t[k]
        if t["unit"] is not None:
            t["bk_unit"] = t["unit"]
        return t, False
    if cmd[0] == "install":
        t.update(exe=pkg["exe"], cfg=pkg["cfg"], ebpf=pkg["ebpf"], unit=pkg["unit"])
        return t, True
    if cmd[0] == "restore":
        if t["bk_exe"] is None:
            return t, False
        for k in ("exe", "cfg", "ebpf"):
            if t["bk_" + k] is not None:
                t[k] = t["bk_" + k]
        if t["bk_unit"] is None:
            return None, True      # unit missing from the backup: outcome not specified by the statement
        t["unit"] = t["bk_unit"]
        if len(cmd) == 1 or cmd[1] == "true":
            for k in ("bk_exe", "bk_cfg", "bk_ebpf", "bk_unit"):
                t[k] = None
        return t, True
    if cmd[0] == "uninstall":
        t["unit"] = None
        if len(cmd) > 1 and cmd[1] == "package":
            t.update(exe=None, cfg=None, ebpf=None)
        return t, True
    if cmd[0] == "purge":
        for k in ("bk_exe", "bk_cfg", "bk_ebpf", "bk_unit"):
            t[k] = None
        return t, False
    raise ValueError(cmd)


def worker(args, scratch):
    res = {"evaluations": 0, "nontrivial": [], "samples": [], "counts": {}, "violations": []}
    cnt = res["counts"]
    for h in range(args["histories"]):
        r = common.rng("c17", args["shard"], h, args["tier"])
        root = Root(scratch, "h%d" % h)
        try:
            # the tool, its package (version B) and the stand-in systemctl
            os.makedirs(root.p(TOOL), exist_ok=True)
            shutil.copy(common.SETUP_BIN, root.p(TOOL + "/proxy_agent_setup"))
            root.write(PKG + "/azure-proxy-agent", fake_exe("2.0.%d" % h, r), 0o755)
            root.write(PKG + "/proxy-agent.json", b'{"pkg": "%d-%d"}' % (h, r.getrandbits(32)))
            root.write(PKG + "/ebpf_cgroup.o", bytes(r.getrandbits(8) for _ in range(r.randrange(1, 3000))))
            root.write(TOOL + "/azure-proxy-agent.service", b"[Unit]\nDescription=B %d\n" % r.getrandbits(32))
            stub = ("#!/bin/sh\nif [ \"$1\" = stop ] && [ -f %s/stop_delay ]; then sleep $(cat %s/stop_delay); fi\nsnap=\"\"\nfor f in %s; do if [ -f \"$f\" ]; then snap=\"$snap$(sha256sum \"$f\" | cut -c1-16),\"; else snap=\"$snap-,\"; fi; done\n"
                    "echo \"$@ |$snap\" >> %s/calls.log\nexit 0\n") % (STUB, STUB, " ".join(SYS[k] for k in ("exe", "cfg", "ebpf", "unit")), STUB)
            root.write(STUB + "/systemctl", stub.encode(), 0o755)
            pkg = {"exe": sha(root.p(PKG + "/azure-proxy-agent")), "cfg": sha(root.p(PKG + "/proxy-agent.json")), "ebpf": sha(root.p(PKG + "/ebpf_cgroup.o")), "unit": sha(root.p(TOOL + "/azure-proxy-agent.service"))}
            init = r.choice(["nothing", "installed", "installed", "installed+backup"])
            if init != "nothing":
                # every fourth installed agent reports the SAME version string as the package while its bytes differ (a re-spun build,
                # a locally modified or damaged file): install places the packaged files all the same
                root.write(SYS["exe"], fake_exe(("2.0.%d" if h % 4 == 2 else "1.0.%d") % h, r), 0o755)
                root.write(SYS["cfg"], b'{"installed": "A %d"}' % r.getrandbits(32))
                root.write(SYS["ebpf"], bytes(r.getrandbits(8) for _ in range(r.randrange(1, 2000))))
                root.write(SYS["unit"], b"[Unit]\nDescription=A %d\n" % r.getrandbits(32))
            if init == "installed+backup":
                root.write(BKP + "/azure-proxy-agent", fake_exe("0.9.%d" % h, r), 0o755)
                root.write(BKP + "/proxy-agent.json", b'{"old": %d}' % r.getrandbits(32))
                root.write(BKP + "/ebpf_cgroup.o", b"old" + bytes(r.getrandbits(8) for _ in range(50)))
                root.write(BK + "/azure-proxy-agent.service", b"[Unit]\nDescription=old %d\n" % r.getrandbits(32))
            # bystanders: other software's files in the shared folders (another Azure component's config in /etc/azure, a unit next to the
            # agent's unit, a file next to the eBPF object): no command may alter or remove them
            bystanders = {}
            if h % 3 != 2:
                for bp in ("/etc/azure/other-component.conf", "/usr/lib/azure-proxy-agent/README.txt", "/usr/lib/systemd/system/other-thing.service", "/usr/sbin/azure-proxy-agent.old"):
                    if r.random() < 0.8:
                        root.write(bp, b"bystander %d\n" % r.getrandbits(64))
                        bystanders[bp] = sha(root.p(bp))
            canonical = (h % 4 == 0)
            slow_stop = args["shard"] == 0 and h == 0
            if slow_stop:
                # a service that takes 12 s to stop (the stand-in systemctl returns - and takes its snapshot of the files - only then): no file may be
                # replaced before the stop has completed, however long it takes
                root.write(STUB + "/stop_delay", b"12")
                cnt["histories_with_a_slow_service_stop"] = cnt.get("histories_with_a_slow_service_stop", 0) + 1
            seq = [["backup"], ["install"], r.choice([["restore"], ["restore", "false"], ["restore", "true"]])] if canonical else [r.choice(COMMANDS) for _ in range(r.randrange(1, 11))]
            if slow_stop:
                seq, canonical = [["backup"], ["install"]], False
            baseline_upper = set(root.upper_files())
            t = tree(root)
            before_all = dict(t)
            log_lines = 0
            model_ok = True
            for i, cmd in enumerate(seq):
                exp, sysctl = model_step(t, cmd, pkg) if model_ok else (None, None)
                strace_out = os.path.join(root.base, "strace-%d" % i) if args["strace"] and i == 0 else None
                p = root.run(cmd, strace_out)
                res["evaluations"] += 1
                got = tree(root)
                calls = []
                try:
                    calls = open(root.p(STUB + "/calls.log")).read().splitlines()[log_lines:]
                except OSError:
                    pass
                log_lines += len(calls)
                wit = {"init": init, "sequence": seq, "step": i, "cmd": cmd, "before": t, "after": got, "expected": exp, "systemctl_calls": calls, "exit": p.returncode, "output": p.stdout.decode(errors="replace")[-400:]}
                if exp is None:
                    model_ok = False
                    cnt["unspecified_outcomes"] = cnt.get("unspecified_outcomes", 0) + 1
                elif got != exp:
                    diff = sorted(k for k in got if got[k] != exp[k])
                    res["violations"].append(["%s:wrong-files-after-command:%s" % (cmd[0] + ("-" + cmd[1] if len(cmd) > 1 else ""), ",".join(diff)), wit])
                    model_ok = False
                if exp is not None and not sysctl and calls:
                    res["violations"].append(["%s:service-touched-although-nothing-to-do" % cmd[0], wit])
                # service stopped before any file was replaced, started after
                changed_sys = [k for k in SYS if got[k] != t[k]]
                if changed_sys and cmd[0] in ("install", "restore") and exp is not None:
                    verbs = [c.split(" ")[0] for c in calls]
                    old_sig = ",".join((t[k] or "-") for k in ("exe", "cfg", "ebpf", "unit")) + ","
                    new_sig = ",".join((got[k] or "-") for k in ("exe", "cfg", "ebpf", "unit")) + ","
                    stop = next((c for c in calls if c.startswith("stop ")), None)
                    start = next((c for c in calls if c.startswith("start ")), None)
                    if stop is None or stop.split("|")[1] != old_sig:
                        res["violations"].append(["%s:files-replaced-before-service-stop" % cmd[0], wit])
                    if start is None or start.split("|")[1] != new_sig or "start" not in verbs or verbs.index("start") < verbs.index("stop") if stop else True:
                        res["violations"].append(["%s:service-not-started-after-last-file" % cmd[0], wit])
                for bp, bh in bystanders.items():
                    if sha(root.p(bp)) != bh:
                        res["violations"].append(["%s:bystander-file-altered-or-removed" % (cmd[0] + ("-" + cmd[1] if len(cmd) > 1 else "")), dict(wit, path=bp, now=sha(root.p(bp)))])
                        bystanders = {}
                        break
                if bystanders:
                    cnt["bystander_checks"] = cnt.get("bystander_checks", 0) + 1
                # nothing outside the four locations, the backup folder and the tool's own log
                for f in set(root.upper_files()) - baseline_upper:
                    if not any(f == a or f.startswith(a + "/") for a in ALLOWED_PREFIXES):
                        res["violations"].append(["file-altered-outside-allowed-locations", dict(wit, path=f)])
                if strace_out and os.path.exists(strace_out):
                    for line in common.merge_strace(strace_out):
                        if "= -1" in line or ("O_WRONLY" not in line and "O_RDWR" not in line and "O_CREAT" not in line and not any(s + "(" in line for s in ("rename", "unlink", "mkdir", "rmdir", "chmod", "truncate", "link"))):
                            continue
                        import re
                        paths = re.findall(r'"(/[^"]*)"', line)
                        for pth in paths:
                            if pth.startswith(("/proc", "/dev", "/sys")) or any(pth == a or pth.startswith(a + "/") for a in ALLOWED_PREFIXES) or pth in ALLOWED_DIRS:
                                continue
                            res["violations"].append(["write-syscall-outside-allowed-locations", dict(wit, line=line.strip())])
                    cnt["strace_checked_commands"] = cnt.get("strace_checked_commands", 0) + 1
                t = got
            if canonical and init != "nothing":
                cnt["canonical_histories"] = cnt.get("canonical_histories", 0) + 1
                for k in SYS:
                    if t[k] != before_all[k]:
                        res["violations"].append(["backup-install-restore-did-not-reinstate:%s" % k, {"init": init, "sequence": seq, "before": before_all, "after": t}])
            names = [c[0] for c in seq]
            if ("install" in names or "restore" in names) and ("backup" in names or init == "installed+backup"):
                res["nontrivial"].append(common.sha([init, seq]))
            if len(res["samples"]) < 2:
                res["samples"].append({"init": init, "sequence": seq, "final": t})
        finally:
            root.close()
    return res


def run(tier, rep):
    common.build_setup_tool()
    rep.coverage["rule"] = ("the real proxy_agent_setup binary is chroot-ed into a private overlay copy of the root file system (every change lands in the overlay's upper directory) with a stand-in systemctl that logs its argv and a "
                            "hash snapshot of the four system files; histories = PRNG sequences (length 1-10) over {backup, install, restore [true|false], uninstall [service|package], purge} from initial states {nothing, "
                            "version A installed, A installed + older backup} with random file contents, every 4th history is backup;install(B);restore. oracle: executable file-tree model of each command's stated effect, "
                            "byte-identity of the four files after the canonical history, stop-before-first-change / start-after-last-change proven by the stub's snapshots, and changed paths (overlay upper dir + strace of "
                            "write-type syscalls) within the four locations, the backup folder and the tool's directory. non-trivial = history with install or restore after a backup; distinct by (initial state, sequence)")
    shards = 8 if tier == "quick" else 16
    args = [{"shard": i, "tier": tier, "histories": 20 if tier == "quick" else 320, "strace": True} for i in range(shards)]
    for res in sandbox.run_many("vf.props.c17", "worker", args, workers=shards, timeout=6000):
        rep.merge_worker(res)
    rep.assumptions += ["a restore from a backup that lacks the service unit is not specified by the statement (excluded from the model once it happens)",
                        "file modes are not compared, only contents", "the extension's own orchestration of these commands is not driven"]

"""Real-kernel sections of C06 and C07 (see vf/realbpf.py). Both are skipped (with a coverage note, no verdict) where the
sandbox cannot load BPF objects or has no cgroup2 hierarchy; the model-based parts of the checks do not depend on them."""
import os, socket, struct, threading, time
from .. import common, realbpf, rawhttp, wproxy

USERS = [(0, 0, "root"), (1001, 1001, "uid==gid"), (1003, 0, "gid0-uid!=0"), (0, 50, "uid0-gid!=0"), (1002, 2000, "uid!=gid")]


def c06_worker(args, scratch):
    res = {"evaluations": 0, "nontrivial": [], "samples": [], "counts": {}, "violations": []}
    cnt = res["counts"]
    r = common.rng("c06-kernel", args["tier"])
    k = realbpf.Kernel(scratch)
    if k.unavailable:
        cnt["kernel_section_skipped"] = 1
        res["skip_reason"] = k.unavailable
        k.close()
        return res
    try:
        if "err" in k.attach:
            res["violations"].append(["kernel-verifier-or-attach-rejected-connect4-program", {"error": k.attach["err"]}])
            return res
        cnt["kernel_verifier_accepted_connect4"] = 1
        # second program (kprobe/tcp_connect): attach_kprobe_program() loads it (kernel verifier) and then attaches it. The
        # kernel here has no kprobe support, so a failure of the ATTACH step is expected; a failure of the LOAD step means
        # the verifier rejected the program.
        kerr = k.kprobe.get("err")
        if kerr is None:
            cnt["kernel_verifier_accepted_kprobe"] = 1; cnt["kprobe_attached"] = 1
        elif "Failed to attach program" in kerr:
            cnt["kernel_verifier_accepted_kprobe"] = 1; cnt["kprobe_attach_unavailable_in_this_kernel"] = 1
        elif "Failed to load program" in kerr:
            res["violations"].append(["kernel-verifier-rejected-kprobe-program", {"error": kerr[:2000]}])
        else:
            cnt["kprobe_program_other_error"] = 1
            res.setdefault("notes", []).append(kerr[:300])
        if k.startup["errors"]:
            res["violations"].append(["startup-map-update-failed", k.startup])
        # policy keys the Rust side wrote at start-up must be the keys the C layout defines
        listed = {"wireserver": True, "imds": True, "hostga": True}

        def check_policy(tag):
            ents = {e[0]: e[1] for e in k.map("policy_map")["entries"]}
            want = {realbpf.policy_key_hex(*wproxy.DESTS[n]) for n, on in listed.items() if on}
            if set(ents) != want:
                res["violations"].append(["kernel-policy-map-keys-differ-from-c-layout", {"when": tag, "have": sorted(ents), "want": sorted(want)}])
            val = realbpf.policy_key_hex("127.0.0.1", 3080)
            for kx, v in ents.items():
                if v != val:
                    res["violations"].append(["kernel-policy-map-value-wrong", {"key": kx, "value": v, "want": val}])
            cnt["policy_map_checks"] = cnt.get("policy_map_checks", 0) + 1
        check_policy("start-up")
        # the agent's own process is exempt in the LIVE maps (the ones of the start attempt that succeeded): its pid is in the skip map and
        # its own connect to a listed destination goes to the host, not to its own listener
        sk = {e[0] for e in k.map("skip_process_map")["entries"]}
        want_pid = realbpf.hexwords(k.shim.proc.pid)
        cnt["skip_map_checks"] = cnt.get("skip_map_checks", 0) + 1
        res["evaluations"] += 1
        if want_pid not in sk:
            res["violations"].append(["kernel:agent-pid-missing-from-live-skip-map-after-a-retried-start", {"skip_map": sorted(sk), "agent_pid": k.shim.proc.pid, "failed_attempt": k.failed_attempt}])
        own = k.shim.call("hyper_get", url="http://169.254.169.254:80/own-call-after-retried-start")
        at_mock = [u for u in k.mocks["imds"].snapshot() if u.target == b"/own-call-after-retried-start"]
        cnt["agent_own_connects_observed"] = cnt.get("agent_own_connects_observed", 0) + 1
        if not at_mock:      # diverted: the listener has no record for it and answers 421 itself, the host sees nothing
            res["violations"].append(["kernel:agent-own-connect-was-diverted-to-its-listener", {"reply": str(own)[:300], "seen_at_host": len(at_mock)}])
        n = 0
        for round_ in range(args["rounds"]):
            if round_ > 0:
                # run-time policy change through the production update_*_redirect_policy (key keeper path)
                listed = {"wireserver": r.random() < 0.6, "imds": r.random() < 0.6, "hostga": r.random() < 0.6}
                k.shim.call("update_policies", **listed)
                check_policy("run-time update %d" % round_)
            for _ in range(args["connects"]):
                uid, gid, cls = r.choice(USERS)
                dest = r.choice(["wireserver", "imds", "hostga", "other", "near-miss", "udp"])
                proto = "tcp"
                if dest == "near-miss":
                    ip, port = r.choice([("168.63.129.16", 8080), ("169.254.169.254", 8080)])
                elif dest == "udp":
                    ip, port = r.choice([("168.63.129.16", 80), ("169.254.169.254", 80)]); proto = "udp"
                else:
                    ip, port = wproxy.DESTS[dest]
                n += 1
                vid = "k6-%d" % n
                p = k.connector(ip, port, proto, vid, uid, gid)
                first = k.read_lines(p, until=("bound",))
                if not first:
                    res.setdefault("inconclusive", []).append("connector did not start"); break
                sport, pid = int(first[0].split()[1]), int(first[0].split()[3])
                # the record the second hook (not attachable here) would write, so that the proxy serves the connection
                k.map("audit_map", "insert", key=realbpf.audit_key(sport), value=realbpf.audit_value_hex(uid, pid, 1 if uid == 0 else 0, ip, port))
                p.stdin.write(b"go\n"); p.stdin.flush()
                lines = k.read_lines(p, timeout=30.0, until=("marker", "connect-failed", "no-response") if proto == "tcp" else ("peer", "connect-failed"))
                peer = next((l.split()[1] for l in lines if l.startswith("peer ")), None)
                if peer is None and not any(l.startswith(("connect-failed", "no-response", "marker")) for l in lines):
                    res.setdefault("inconclusive", []).append("kernel section: the connector process reported nothing within 30 s; not a verdict")
                    p.kill()
                    break
                res["evaluations"] += 1
                expect_redirect = proto == "tcp" and dest in listed and listed.get(dest, False)
                wit = {"uid": uid, "gid": gid, "class": cls, "dest": [ip, port, proto], "policy": dict(listed), "connector_output": lines, "pid": pid, "source_port": sport}
                cnt["kernel_connects_%s" % ("redirected" if expect_redirect else "untouched")] = cnt.get("kernel_connects_%s" % ("redirected" if expect_redirect else "untouched"), 0) + 1
                if expect_redirect and peer != "127.0.0.1:3080":
                    res["violations"].append(["kernel:listed-connect-not-redirected", wit])
                if not expect_redirect and peer is not None and peer != "%s:%d" % (ip, port):
                    res["violations"].append(["kernel:unlisted-connect-was-rewritten", wit])
                # pending record written by the first hook (the real program, in the kernel): key = tgid<<32|tid
                key = realbpf.hexwords(pid, pid)
                got_r = k.map("local_map", "get", key=key)
                if "value" not in got_r:
                    # the hand-off map between the two hooks is internal to the kernel program; a layout this monitor cannot read is
                    # no verdict (the user-space model, compiled from the same source, judges the final records)
                    cnt["pending_record_not_readable"] = cnt.get("pending_record_not_readable", 0) + 1
                    got_r = {"value": "unreadable"}
                got = got_r["value"]
                if expect_redirect and got != "unreadable":
                    # layout-agnostic: the words the second hook needs (uid, pid, destination address and port) are in the entry
                    wordsof = lambda h: [h[i:i + 8] for i in range(0, len(h), 8)]
                    halves = lambda h: [h[i:i + 4] for i in range(0, len(h), 4)]
                    want = {"uid": struct.pack("<I", uid).hex(), "pid": struct.pack("<I", pid).hex(), "ip": socket.inet_aton(ip).hex()}
                    missing = [f for f, wv in want.items() if got is None or wv not in wordsof(got)]
                    if got is None or struct.pack(">H", port).hex() not in halves(got):
                        missing.append("port")
                    if missing:
                        cls2 = "uid-taken-from-gid" if got and "uid" in missing and uid != gid and struct.pack("<I", gid).hex() in wordsof(got) else "fields"
                        res["violations"].append(["kernel:pending-record-wrong:%s" % cls2, dict(wit, got=got, want=want, missing=missing)])
                    res["nontrivial"].append(common.sha(["kernel", cls, dest, round_ > 0]))
                    k.map("local_map", "delete", key=key)
                elif not expect_redirect and got is not None and got != "unreadable":
                    res["violations"].append(["kernel:record-for-connect-that-must-not-have-one", dict(wit, got=got)])
                try:
                    p.stdin.write(b"bye\n"); p.stdin.flush(); p.wait(2)
                except Exception:
                    p.kill()
                if len(res["samples"]) < 2 and expect_redirect:
                    res["samples"].append(wit)
        # the agent's own connects (the proxy forwarding to the hosts) must be left untouched: forwarded requests reached the mocks, not the listener again
        fwd = sum(len(m.snapshot()) for m in k.mocks.values())
        cnt["requests_forwarded_by_the_agent_itself_untouched"] = fwd
        if fwd == 0 and cnt.get("kernel_connects_redirected", 0) > 3:
            res["violations"].append(["kernel:agents-own-connects-not-exempt", {"forwarded": fwd}])
        for pn in k.shim.panics():
            res["violations"].append(["panic:%s" % pn.get("location"), pn])
    finally:
        k.close()
    return res


def c07_worker(args, scratch):
    """port reuse and concurrent accepts with REAL kernel maps: lookup/remove go through the production BpfObject (aya) under its mutex"""
    res = {"evaluations": 0, "nontrivial": [], "samples": [], "counts": {}, "violations": []}
    cnt = res["counts"]
    r = common.rng("c07-kernel", args["tier"])
    # hook H3: the redirector's state actor sometimes takes 0-4 ms to answer (lookup and removal both go through it): consumption that is not
    # finished when the accept path hands the connection on stays observable for that long
    # (the concurrent bursts run without them in a second pass: delays spread the accepts out and hide contention on the BpfObject mutex)
    k = realbpf.Kernel(scratch, runtime="multi:8", env={"GPA_VERIF_DELAY": "actor_redirector:400:4000", "GPA_VERIF_DELAY_SEED": "7"} if args.get("delays") else None)
    if k.unavailable or "err" in getattr(k, "attach", {}):
        cnt["kernel_section_skipped"] = 1
        res["skip_reason"] = k.unavailable or k.attach.get("err")
        k.close()
        return res
    lock = threading.Lock()

    def viol(sig, wit):
        with lock:
            res["violations"].append([sig, wit])
    try:
        me = os.getpid()

        def open_conn(record=True, src_port=0):
            c = rawhttp.Conn("169.254.169.254", 80, src_port=src_port, src_ip="0.0.0.0", connect=False, timeout=60)
            if record:
                k.map("audit_map", "insert", key=realbpf.audit_key(c.src_port), value=realbpf.audit_value_hex(0, me, 1, "169.254.169.254", 80))
            c.connect()     # the kernel's connect4 program diverts it to 127.0.0.1:3080
            return c

        def exchange(c, vid):
            c.send(rawhttp.build_request("GET", "/k7/" + vid, [("x-vf-id", vid)]))
            return c.read_response().status
        for rnd in range(args["rounds"] if not args.get("delays") else 0):
            nconn = r.choice([48, 64, 96])
            ports = [None] * nconn
            barrier = threading.Barrier(nconn)

            def client(i):
                try:
                    c = rawhttp.Conn("169.254.169.254", 80, src_ip="0.0.0.0", connect=False, timeout=60)
                    k.map("audit_map", "insert", key=realbpf.audit_key(c.src_port), value=realbpf.audit_value_hex(0, me, 1, "169.254.169.254", 80))
                    ports[i] = c.src_port
                    barrier.wait(20)
                    c.connect()
                    st = exchange(c, "r%d-c%d" % (rnd, i))
                    if st != 200:
                        viol("kernel:attributed-connection-not-served", {"status": st, "port": c.src_port})
                    c.close(abort=True)
                except Exception as e:  # noqa
                    if common.is_timeout(e) or isinstance(e, threading.BrokenBarrierError):
                        with lock:      # the client's own watchdog on a loaded machine: no verdict
                            if not res.get("inconclusive"):
                                res.setdefault("inconclusive", []).append("kernel section: client socket watchdog (60 s) or start barrier fired; not a verdict")
                    else:
                        viol("kernel:client-error", {"err": repr(e)})
            ts = [threading.Thread(target=client, args=(i,)) for i in range(nconn)]
            for t in ts: t.start()
            for t in ts: t.join()
            with lock:
                res["evaluations"] += nconn
            # every record must have been consumed at accept
            left = [p for p in ports if p and k.map("audit_map", "get", key=realbpf.audit_key(p))["value"] is not None]
            if left:
                viol("kernel:record-not-consumed-at-accept", {"ports": left[:8], "of": nconn})
            # reuse each port without a fresh record: must be refused (421) and nothing relayed
            bad = []
            for i, pnum in enumerate(ports):
                if not pnum:
                    continue
                try:
                    c = open_conn(record=False, src_port=pnum)
                    vid = "r%d-reuse%d" % (rnd, i)
                    st = exchange(c, vid)
                    c.close(abort=True)
                    if not (400 <= st < 600) or any((u.header("x-vf-id") or b"").decode() == vid for u in k.mocks["imds"].snapshot()):
                        bad.append((pnum, st))
                except OSError:
                    cnt["port_reuse_bind_failed"] = cnt.get("port_reuse_bind_failed", 0) + 1
            if bad:
                viol("kernel:reused-port-without-record-not-refused", {"ports": bad[:8]})
            cnt["kernel_port_reuses"] = cnt.get("kernel_port_reuses", 0) + nconn
            res["nontrivial"].append(common.sha(["kernel-burst", nconn, rnd]))
        # immediate reuse: the port of a served connection is reused (no fresh record) as soon as its response has arrived
        bad = []
        for i in range(args.get("immediate_reuses", 60) if args.get("delays") else 0):
            try:
                c = open_conn(record=True)
                pnum = c.src_port
                st1 = exchange(c, "imm-%d-a" % i)
                c.close(abort=True)
                c2 = open_conn(record=False, src_port=pnum)
                vid = "imm-%d-b" % i
                st2 = exchange(c2, vid)
                c2.close(abort=True)
                with lock:
                    res["evaluations"] += 1
                if st1 == 200 and (not (400 <= st2 < 600) or any((u.header("x-vf-id") or b"").decode() == vid for u in k.mocks["imds"].snapshot())):
                    bad.append((pnum, st2))
            except OSError:
                cnt["port_reuse_bind_failed"] = cnt.get("port_reuse_bind_failed", 0) + 1
        cnt["kernel_immediate_port_reuses"] = cnt.get("kernel_immediate_port_reuses", 0) + (args.get("immediate_reuses", 60) if args.get("delays") else 0)
        if bad:
            viol("kernel:reused-port-without-record-not-refused", {"ports": bad[:8], "history": "port reused right after the first connection's response arrived (actor delay points on)"})
        res["samples"].append({"history": "16-48 connections accepted concurrently through real kernel maps, each port then reused without a record", "rounds": args["rounds"]})
        for pn in k.shim.panics():
            viol("panic:%s" % pn.get("location"), pn)
    finally:
        k.close()
    return res

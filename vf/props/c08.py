"""C08 - A key is never latched at the host unless the guest can recover it (crash-point enumeration)."""
import json, os, re, shutil, subprocess, time
from .. import common, sandbox, wsmock, realagent, mockhost, rawhttp, standin
from ..oracles import sig

NEEDS_AGENT = True
KEY_DIR = "/var/lib/azure-proxy-agent/keys"
S = "openat,creat,write,writev,pwrite64,rename,renameat,renameat2,unlink,unlinkat,mkdir,chmod,fchmod,chown,fchown,fsync,fdatasync,close,connect,sendto,recvfrom"
SCENARIOS = ["fresh", "local-key-present", "host-latched-unknown-key", "local-key-corrupt", "local-key-truncated"]


LINE = re.compile(r"^(\d+)\s+(\w+)\((.*)$")


def path_class(p):
    if "azure-proxy-agent/keys" in p:
        return "key-tmp" if p.endswith(".tmp") else "key-final" if p.endswith(".key") else "keys-dir" if p.rstrip("/").endswith("keys") else "keys-other"
    if "/var/log" in p:
        return "log"
    if "/dev/console" in p:
        return "console"
    if "events.log" in p or "standin" in p:
        return "verif-standin"
    return "other"


def walk(lines):
    """yields (tid, syscall, ordinal of that syscall on that thread, class) for every syscall line, tracking fd -> path per process"""
    fds = {}
    counts = {}
    for l in lines:
        m = LINE.match(l)
        if not m or "+++" in l or "---" in l:
            continue
        tid, sc, rest = m.group(1), m.group(2), m.group(3)
        counts[(tid, sc)] = counts.get((tid, sc), 0) + 1
        cls = "other"
        pm = re.search(r'"([^"]*)"', rest)
        if sc in ("openat", "creat", "mkdir", "chmod", "chown", "unlink", "unlinkat", "rename", "renameat", "renameat2"):
            paths = re.findall(r'"([^"]*)"', rest)
            cls = path_class(paths[-1]) if paths else "other"
            if sc == "rename" and paths:
                cls = "rename:" + path_class(paths[0]) + "->" + path_class(paths[-1])
            r_ = re.search(r"=\s*(\d+)\s*$", rest)
            if sc in ("openat", "creat") and r_ and paths:
                fds[int(r_.group(1))] = path_class(paths[-1])
        elif sc == "connect":
            fm = re.match(r"(\d+),", rest)
            host = "host" if "168.63.129.16" in rest else "imds" if "169.254" in rest else "sock"
            if fm:
                fds[int(fm.group(1))] = "socket:" + host
            cls = "socket:" + host
        else:
            fm = re.match(r"(\d+)[,)]", rest)
            if fm:
                cls = fds.get(int(fm.group(1)), "fd?")
                if sc == "close":
                    fds.pop(int(fm.group(1)), None)
        yield tid, sc, counts[(tid, sc)], cls, l


def reset_dirs():
    for d in ("/var/lib/azure-proxy-agent", "/var/log/azure-proxy-agent"):
        shutil.rmtree(d, ignore_errors=True)
    os.makedirs("/var/log/azure-proxy-agent", exist_ok=True)


def prepare(scenario, ws, r):
    """initial key-directory / host state; returns the guid latched before the run (or None)"""
    ws.version = "1.0"
    ws.state_v1 = "Wireserver"
    if scenario == "fresh":
        return None
    os.makedirs(KEY_DIR, exist_ok=True)
    k = ws.new_key()
    ws.latched = k["guid"]
    path = os.path.join(KEY_DIR, k["guid"] + ".key")
    text = json.dumps(k, indent=2)
    if scenario == "local-key-present":
        open(path, "w").write(text)
        return k["guid"]
    if scenario == "host-latched-unknown-key":
        k2 = ws.new_key()
        open(os.path.join(KEY_DIR, k2["guid"] + ".key"), "w").write(json.dumps(k2, indent=2))   # an older key is there, the latched one is not
        return None
    if scenario == "local-key-corrupt":
        open(path, "w").write("{ this is not json")
    elif scenario == "local-key-truncated":
        open(path, "w").write(text[: len(text) // 2])
    elif scenario == "local-key-binary":
        open(path, "wb").write(b"\xff\xfe\x00\x80 not text at all \xc3\x28" + bytes(range(128, 200)))     # unreadable as text (an I/O-level error, not a parse error)
    elif scenario == "local-key-isdir":
        os.makedirs(path)                                                                       # something that exists but cannot be read as a file
    elif scenario == "local-key-wrong-guid":
        k3 = dict(k, guid="00000000-1111-2222-3333-444444444444")
        open(path, "w").write(json.dumps(k3, indent=2))
    return None


def check_key_files(ws, viol, wit, preexisting_bad=()):
    """(a) no truncated/corrupt file under a key's final name; returns parsed files"""
    out = {}
    if not os.path.isdir(KEY_DIR):
        return out
    for name in os.listdir(KEY_DIR):
        if not name.endswith(".key"):
            continue
        if name in preexisting_bad:
            continue
        if os.path.isdir(os.path.join(KEY_DIR, name)):
            continue
        data = open(os.path.join(KEY_DIR, name), "rb").read()
        try:
            j = json.loads(data)
            ok = j.get("guid") == name[:-4] and isinstance(j.get("key"), str) and len(j["key"]) >= 32 and len(j["key"]) % 2 == 0 and all(c in "0123456789abcdefABCDEF" for c in j["key"])
        except Exception:
            j, ok = None, False
        if not ok:
            viol("corrupt-or-truncated-file-under-final-key-name", dict(wit, file=name, content=data[:200].decode("latin-1")))
        out[name[:-4]] = j
    return out


def trial(scratch, scenario, n, r, res, imds):
    """n: 0 (control, no kill) or [syscall name, k] = kill at entry of the k-th invocation of that syscall"""
    cnt = res["counts"]
    def bump(k, c=1):
        cnt[k] = cnt.get(k, 0) + c
    def viol(s_, w_):
        res["violations"].append([s_, w_])
    reset_dirs()
    ws = wsmock.WsMock(key_dir=KEY_DIR, rng=r)
    if r.random() < 0.3:
        ws.guid_case = "upper"      # a host that prints guids in upper case (status and key documents alike)
        bump("trials_with_upper_case_guids")
    if r.random() < 0.3:
        ws.key_bits = r.choice([128, 512, 384])     # ... and issues keys that are not 256 bits long
        bump("trials_with_keys_that_are_not_256_bits")
    pre_latched = prepare(scenario, ws, r)
    pre_bad = set()
    if scenario.startswith("local-key-") and scenario != "local-key-present":
        pre_bad = {ws.latched + ".key"}
    host_latched_at_start = ws.latched
    tag = "t-%s-%s" % (scenario, "ctl" if not n else "%s%d%s" % (n[0], n[1], "lie" if len(n) > 2 else ""))
    vdir = os.path.join(scratch, "standin")
    lie = bool(n) and len(n) > 2 and n[2] == "lie"
    if lie:
        # a lost write: the k-th write reports success without writing anything (strace does not execute a syscall whose retval is injected)
        # retval=1: a (possibly short) write that reports one byte written and writes nothing - valid for every request length >= 1
        inj = ["-e", "trace=" + S, "-e", "inject=write:retval=1:when=%d" % n[1]]
    else:
        inj = ["-e", "trace=" + S] + (["-e", "inject=%s:signal=KILL:when=%d" % (n[0], n[1])] if n else [])
    a = realagent.RealAgent(scratch, tag=tag, vdir=vdir, strace=inj, worker_threads=1)
    if lie:
        t_l = time.time()
        while time.time() - t_l < 4 and not any(k == "attest" for _, k, _ in ws.log):
            time.sleep(0.05)
        time.sleep(0.2)
        killed = False
        a.kill()
    else:
        killed = a.wait_exit(5 if n else 1.5)
        if not killed:
            a.kill()
    time.sleep(0.02)
    trace = common.merge_strace(a.trace_path)
    site, phase = "not-killed", "n/a"
    if killed:
        # the injected syscall is the last syscall line of the trace (strace prints it with "= ?")
        lastw = None
        for w_ in walk(trace):
            lastw = w_
        if lastw:
            site = "%s:%s" % (lastw[1], lastw[3])
        seen = [k for _, k, _ in ws.log]
        phase = "after-attest" if any(k == "attest" for k in seen) else "after-acquire" if "issued" in seen else "after-status" if "status" in seen else "before-status"
    if lie:
        site, phase = "lost-write:key-tmp", "lost-write"
        res["nontrivial"].append(common.sha([scenario, "lie", n[1]]))
    bump("kill_site:%s" % site)
    bump("kill_phase:%s:%s" % (scenario, phase))
    res["evaluations"] += 1
    wit = {"scenario": scenario, "when": n, "kill_site": site, "phase": phase, "host_log": [(k, d) for _, k, d in ws.log][-8:], "dir": sorted(os.listdir(KEY_DIR)) if os.path.isdir(KEY_DIR) else None}
    # (a) is about crashes; after a lost write a never-attested key's file may legitimately be unreadable
    files = check_key_files(ws, (lambda *_a: None) if lie else viol, wit, pre_bad)
    # (b) what the host regards as attested must be recoverable
    attested = [d.split()[0] for _, k, d in ws.log if k == "attest" and d.endswith(" ok")]
    for g in attested:
        j = files.get(g)
        if j is None or j.get("key") != ws.issued.get(g):
            viol("host-latched-key-not-in-local-store", dict(wit, guid=g))
    # (c) never attest a key that was not stored identically at that moment
    for g, snap in ws.attest_snapshots:
        ok = False
        if snap is not None:
            try:
                j = json.loads(snap)
                ok = j.get("guid") == g and j.get("key") == ws.issued.get(g)
            except Exception:
                ok = False
        if not ok:
            viol("attested-before-stored", dict(wit, guid=g, file_at_attest=None if snap is None else snap[:120].decode("latin-1")))
    if killed and (phase in ("after-acquire", "after-attest") or "key-" in site):
        res["nontrivial"].append(common.sha([scenario, site, phase, n]))
    # (d) restart on the same directory without faults
    acq_before = ws.count("acquire")
    latched_before = ws.latched
    b = realagent.RealAgent(scratch, tag=tag + "-restart", vdir=vdir, worker_threads=2)
    ok_signed, used = False, None
    t0 = time.time()
    while time.time() - t0 < 30:      # a watchdog, generous for a loaded machine; a restart that can authenticate does so within a second
        if ws.latched and (ws.count("status") >= 1):
            # proxied request; must be signed with the key the host has latched
            try:
                c = rawhttp.Conn("127.0.0.1", 3080, connect=False, timeout=10)
                standin.inject(vdir, c.src_port, 0, os.getpid(), 1, "169.254.169.254", 80)
                c.connect()
                vid = "%s-%d" % (tag, int((time.time() - t0) * 1000))
                c.send(rawhttp.build_request("GET", "/metadata/instance?x=1", [("x-vf-id", vid)]))
                resp = c.read_response()
                c.close()
                ups = [u for u in imds.snapshot() if (u.header("x-vf-id") or b"").decode() == vid]
                if ups:
                    v, detail = sig.verify(ups[0], ws.issued)
                    if v in ("ok", "ok-lenient"):
                        used = detail[0]
                        if used == ws.latched.lower():
                            ok_signed = True
                            break
            except Exception:
                pass
        time.sleep(0.05)
    b.kill()
    if not ok_signed:
        viol("restart-cannot-authenticate", dict(wit, host_latched=ws.latched, signed_with=used, restart_host_log=[(k, d) for _, k, d in ws.log][-8:],
                                                 restart_stdout=b.stdout().decode(errors="replace")[-600:]))
    else:
        bump("restart_authenticated")
    if latched_before is not None and latched_before in files and not (scenario.startswith("local-key-") and scenario != "local-key-present" and latched_before == host_latched_at_start) \
            and scenario != "host-latched-unknown-key":
        if ws.count("acquire") != acq_before or ws.latched != latched_before:
            viol("restart-requested-a-new-key-although-latched-key-was-stored", dict(wit, latched_before=latched_before, latched_after=ws.latched))
        else:
            bump("restart_reused_stored_key")
    if not lie:
        check_key_files(ws, viol, dict(wit, after="restart"), pre_bad)
    if len(res["samples"]) < 3 and phase != "before-status":
        res["samples"].append(wit)
    ws.close()
    for p in (a.stderr() + b.stderr()).decode(errors="replace").splitlines():
        if "panicked at" in p:
            viol("panic-in-agent", dict(wit, line=p))


def fault_trial(scratch, scenario, faults, r, res, imds):
    """host failures at each protocol step (no crash): invariants (a)-(c) and eventual authentication"""
    def viol(s_, w_):
        res["violations"].append([s_, w_])
    reset_dirs()
    ws = wsmock.WsMock(key_dir=KEY_DIR, rng=r)
    if r.random() < 0.3:
        ws.guid_case = "upper"
    if r.random() < 0.3:
        ws.key_bits = r.choice([128, 512, 384])
    prepare(scenario, ws, r)
    pre_bad = {ws.latched + ".key"} if scenario.startswith("local-key-") and scenario != "local-key-present" else set()
    for step, spec in faults:
        ws.fault(step, spec)
    vdir = os.path.join(scratch, "standin")
    a = realagent.RealAgent(scratch, tag="f-%s-%d" % (scenario, res["evaluations"]), vdir=vdir, worker_threads=2)
    t0 = time.time()
    done = False
    while time.time() - t0 < 12 and not done:
        done = ws.latched is not None and not any(ws.faults.get(s) for s in ("status", "acquire", "attest")) and any(k == "attest" and (d.endswith(" ok") or "response lost" in d) for _, k, d in ws.log) and \
            (not any("response lost" in d for _, k, d in ws.log) or ws.count("status") >= [i for i, (_, k, d) in enumerate(ws.log) if "response lost" in d][0] and sum(1 for _, k, _ in ws.log[[i for i, (_, k, d) in enumerate(ws.log) if "response lost" in d][0]:] if k == "status") >= 2) or \
            (scenario == "local-key-present" and ws.count("status") >= len([f for f in faults if f[0] == "status"]) + 2)
        time.sleep(0.05)
    res["evaluations"] += 1
    wit = {"scenario": scenario, "faults": [(s, f.get("kind"), f.get("code")) for s, f in faults], "host_log": [(k, d) for _, k, d in ws.log][-12:]}
    files = check_key_files(ws, viol, wit, pre_bad)
    for g, snap in ws.attest_snapshots:
        ok = False
        if snap is not None:
            try:
                j = json.loads(snap); ok = j.get("guid") == g and j.get("key") == ws.issued.get(g)
            except Exception:
                ok = False
        if not ok:
            viol("attested-before-stored", dict(wit, guid=g))
    for g in [d.split()[0] for _, k, d in ws.log if k == "attest" and (d.endswith(" ok") or d.endswith(" ok (response lost)"))]:
        if files.get(g) is None or files[g].get("key") != ws.issued.get(g):
            viol("host-latched-key-not-in-local-store", dict(wit, guid=g))
    lost = [d.split()[0] for _, k, d in ws.log if k == "attest" and d.endswith(" ok (response lost)")]
    if lost:
        # once the host has latched a key (even if the guest never saw the answer) the guest must go on with that key, not ask for another
        idx = max(i for i, (_, k, d) in enumerate(ws.log) if k == "attest" and d.endswith(" ok (response lost)"))
        if any(k == "acquire" for _, k, _ in ws.log[idx + 1:]):
            viol("new-key-requested-although-host-latched-key-was-stored", dict(wit, guid=lost[-1]))
        done = done or (ws.latched == lost[-1] and ws.count("status") >= 3)
    if not done:
        viol("no-latch-after-host-faults-stopped", wit)
    res["counts"]["fault_trials"] = res["counts"].get("fault_trials", 0) + 1
    res["nontrivial"].append(common.sha(["fault", scenario, wit["faults"]]))
    a.kill()
    ws.close()


def disable_enable_trial(scratch, variant, r, res):
    """history without crash or fault: latch, the host reports the channel disabled for a while (it still regards the key as latched), then enabled
    again (variant 'restart': the agent is restarted while disabled): the latched key stays in the local store and is used again without a
    new key being requested"""
    def viol(s_, w_):
        res["violations"].append([s_, w_])
    reset_dirs()
    ws = wsmock.WsMock(key_dir=KEY_DIR, rng=r)
    ws.version = "1.0"; ws.state_v1 = "Wireserver"
    vdir = os.path.join(scratch, "standin")
    agents = [realagent.RealAgent(scratch, tag="de-%s-%d" % (variant, res["evaluations"]), vdir=vdir, worker_threads=2)]

    def wait(cond, t=10):
        t0 = time.time()
        while time.time() - t0 < t and not cond():
            time.sleep(0.05)
        return cond()
    try:
        if not wait(lambda: ws.latched is not None and any(k == "attest" and d.endswith(" ok") for _, k, d in ws.log)):
            res.setdefault("inconclusive", []).append("disable/enable history: no initial latch"); return
        g = ws.latched
        acquires = ws.count("acquire")
        n0 = ws.count("status")
        ws.state_v1 = "Disabled"
        wait(lambda: ws.count("status") >= n0 + 3)
        if variant == "restart":
            agents[-1].kill()
            agents.append(realagent.RealAgent(scratch, tag="de-%s-r%d" % (variant, res["evaluations"]), vdir=vdir, worker_threads=2))
            n1 = ws.count("status")
            wait(lambda: ws.count("status") >= n1 + 2)
        ws.state_v1 = "Wireserver"
        n2 = ws.count("status")
        wait(lambda: ws.count("status") >= n2 + 3)
        res["evaluations"] += 1
        wit = {"history": "latch, disabled x3%s, enabled x3" % (", restart" if variant == "restart" else ""), "host_log": [(k, d) for _, k, d in ws.log][-14:],
               "dir": sorted(os.listdir(KEY_DIR)) if os.path.isdir(KEY_DIR) else None}
        files = check_key_files(ws, viol, wit)
        if files.get(g) is None or files[g].get("key") != ws.issued.get(g):
            viol("host-latched-key-not-in-local-store", dict(wit, guid=g))
        if ws.count("acquire") != acquires or ws.latched != g:
            viol("new-key-requested-although-host-latched-key-was-stored", dict(wit, guid=g, latched_after=ws.latched))
        res["counts"]["disable_enable_histories"] = res["counts"].get("disable_enable_histories", 0) + 1
        res["nontrivial"].append("disable-enable-" + variant)
    finally:
        for a in agents:
            a.kill()
        ws.close()


def worker(args, scratch):
    res = {"evaluations": 0, "nontrivial": [], "samples": [], "counts": {}, "violations": []}
    imds = mockhost.MockHost("169.254.169.254", 80, lambda req: {"status": 200, "body": b"{}"}, name="imds")
    try:
        for scenario, n in args["trials"]:
            r = common.rng("c08", scenario, str(n))
            trial(scratch, scenario, n, r, res, imds)
        for scenario, faults in args.get("fault_trials", []):
            r = common.rng("c08f", scenario, str(faults))
            fault_trial(scratch, scenario, faults, r, res, imds)
        for variant in args.get("disable_enable", []):
            disable_enable_trial(scratch, variant, common.rng("c08de", variant), res)
    finally:
        imds.close()
    return res


def record(args, scratch):
    """recording pass: per scenario, the ordinal range (on the worker thread) of the S-syscalls between the first status request and a little after the attest reply"""
    out = {}
    for scenario in args["scenarios"]:
        reset_dirs()
        r = common.rng("c08", scenario, 0)
        ws = wsmock.WsMock(key_dir=KEY_DIR, rng=r)
        prepare(scenario, ws, r)
        a = realagent.RealAgent(scratch, tag="rec-" + scenario, vdir=os.path.join(scratch, "standin"), strace=["-e", "trace=" + S], worker_threads=1)
        t0 = time.time()
        while time.time() - t0 < 6 and not (ws.count("status") >= 2):
            time.sleep(0.02)
        a.kill()
        ws.close()
        lines = common.merge_strace(a.trace_path)
        ws_ = list(walk(lines))
        tid = next((w_[0] for w_ in ws_ if w_[1] == "connect" and "168.63.129.16" in w_[4]), None)
        mine = [w_ for w_ in ws_ if w_[0] == tid]
        idx = [i for i, w_ in enumerate(mine) if "secure-channel/status" in w_[4]]
        first = idx[0] if idx else 0
        end = idx[1] if len(idx) > 1 else len(mine)
        points = []
        for w_ in mine[max(0, first - 6):end + 2]:
            ln = None
            mlen = re.search(r",\s*(\d+)\)\s*=", w_[4])
            if w_[1] == "write" and mlen:
                ln = int(mlen.group(1))
            points.append([w_[1], w_[2], w_[3], ln])
        out[scenario] = {"points": points, "worker_syscalls_total": len(mine)}
        if scenario == "fresh":
            # order monitor on the fault-free latch: the key file is put under its final name, then OPENED FOR READING (the read-back the
            # statement demands), and only then is the attestation request written to the host socket
            allc = ws_      # every thread, in the order of the trace: the three steps are sequential even if one of them runs on a helper thread
            i_store = next((i for i, w_ in enumerate(allc) if w_[1].startswith("rename") and re.search(r'\.key"', w_[4].split(",")[-1] if "," in w_[4] else w_[4])), None)
            i_attest = next((i for i, w_ in enumerate(allc) if w_[1] in ("write", "writev", "sendto", "sendmsg") and '"POST /secure-channel/key/' in w_[4]), None)     # strace shows the first 32 bytes: acquire is "POST /secure-channel/key HTTP..."
            readback = None
            if i_store is not None and i_attest is not None:
                readback = any(w_[1] == "openat" and re.search(r'\.key"', w_[4]) and "O_RDONLY" in w_[4] and re.search(r"=\s*\d+\s*$", w_[4]) for w_ in allc[i_store + 1:i_attest])
            out[scenario]["order_monitor"] = {"store_index": i_store, "attest_index": i_attest, "key_file_opened_for_reading_between": readback,
                                               "calls_between": [w_[4].split(" ", 1)[-1][:160] for w_ in allc[(i_store or 0):(i_attest if i_attest is not None else (i_store or 0) + 30) + 1]][:40]}
    return {"zones": out}


def run(tier, rep):
    rep.level = "fault_enumeration"
    rep.coverage["rule"] = ("the real azure-proxy-agent binary (single tokio worker) runs under strace with inject=<state-changing syscalls>:signal=KILL:when=N against a mock WireServer implementing the key protocol; "
                            "a recording pass finds, per scenario, the ordinal range of the worker thread's syscalls (openat/write/rename/unlink/mkdir/chmod/chown/fsync/close/connect/sendto/recvfrom) from the first "
                            "status request to the next poll; N sweeps that range (quick: whole range for the fresh-latch scenario, stride elsewhere; thorough: whole range in all five scenarios); the kill site is re-read "
                            "from each trial's trace. oracles after the kill: no corrupt/truncated file under a .key name, every guid the mock accepted an attestation for is stored with the issued secret, the key file "
                            "existed with identical content at every attest request, and a fresh agent on the same directory signs a proxied request with the host's latched key without requesting a new one when the "
                            "latched key was stored. plus host-fault scripts per protocol step. non-trivial = trial killed after the first acquire response or inside a key-file syscall; distinct by (scenario, site, phase, N)")
    zones = sandbox.run("vf.props.c08", "record", {"scenarios": SCENARIOS}, timeout=300).get("zones")
    if not zones:
        raise common.Inconclusive("recording pass failed")
    om = zones.get("fresh", {}).get("order_monitor")
    if om:
        rep.coverage["evaluations"] += 1
        rep.coverage["store_readback_attest_order"] = {k: om[k] for k in ("store_index", "attest_index", "key_file_opened_for_reading_between")}
        if om["store_index"] is None or om["attest_index"] is None:
            rep.inconclusive.append("order monitor: store or attest not found in the recording pass")
        elif om["store_index"] > om["attest_index"]:
            rep.violation("attested-before-stored", om)
        elif not om["key_file_opened_for_reading_between"]:
            rep.violation("attested-without-reading-the-stored-key-back", om)
    trials = []
    for sc in SCENARIOS:
        pts = zones[sc]["points"]
        rep.coverage.setdefault("crash_points_per_scenario", {})[sc] = len(pts)
        if tier == "thorough" or sc == "fresh":
            chosen = pts
        else:
            # every key-file / socket point, stride 4 elsewhere
            chosen = [p for i, p in enumerate(pts) if p[2].startswith(("key-", "keys-", "rename", "socket")) and (p[0] != "write" or i % 3 == 0) or i % 6 == 0]
        trials += [(sc, [p[0], p[1]]) for p in chosen]
        trials.append((sc, 0))   # control: no kill
        lies = [p for p in pts if p[0] == "write" and p[2] == "key-tmp" and p[3]]
        if sc == "fresh" or tier == "thorough":
            for i, p in enumerate(lies):
                if tier == "thorough" or i % 3 == 0 or p[3] >= 30:
                    trials.append((sc, ["write", p[1], "lie", p[3]]))
    # unreadable-local-key variants without a kill sweep: the latched key's file exists but cannot be read (binary garbage, a directory)
    trials += [("local-key-binary", 0), ("local-key-isdir", 0)]
    rep.coverage.pop("zones", None)
    faults = []
    F = [("status", {"kind": "status", "code": 500}), ("status", {"kind": "body", "body": "{oops"}), ("status", {"kind": "reset"}),
         ("acquire", {"kind": "status", "code": 500}), ("acquire", {"kind": "body", "body": '{"guid":"x"}'}), ("acquire", {"kind": "reset"}),
         ("attest", {"kind": "status", "code": 500}), ("attest", {"kind": "status", "code": 403}), ("attest", {"kind": "reset"}),
         ("attest", {"kind": "latch-then-lose-response"})]
    for f in F:
        faults.append(("fresh", [f]))
    if tier == "thorough":
        for sc in SCENARIOS[1:]:
            for f in F:
                faults.append((sc, [f]))
        for f in F:
            for g in F:
                faults.append(("fresh", [f, g]))
    shards = 16
    args = [{"trials": trials[i::shards], "fault_trials": faults[i::shards], "disable_enable": [["plain"], ["restart"]][i] if i < 2 else []} for i in range(shards)]
    for res in sandbox.run_many("vf.props.c08", "worker", args, workers=shards, timeout=3000):
        rep.merge_worker(res)
    killed_in_zone = sum(v for k, v in rep.coverage.items() if k.startswith("kill_phase:") and ("after-acquire" in k or "after-attest" in k))
    rep.coverage["trials_killed_after_acquire"] = killed_in_zone
    if killed_in_zone < 20 and not rep.violations:
        rep.inconclusive.append("fewer than 20 trials were killed after the first acquire response")
    rep.assumptions += ["crash model = SIGKILL at entry of a state-changing syscall (process death, kernel survives); torn writes inside one write syscall and power loss are out of reach",
                        "strace's when= counter is per thread; the agent runs with TOKIO_WORKER_THREADS=1 and every trial's kill site is read back from its trace"]

"""C14 - The proxy is transparent: requests and responses are relayed unchanged."""
import collections, hashlib, threading, time
from .. import common, sandbox, wproxy, rawhttp, gen_http

OWNED = {b"x-ms-azure-host-claims", b"x-ms-azure-host-date", b"x-ms-azure-host-authorization"}
FRAMING = {b"content-length", b"transfer-encoding", b"connection", b"keep-alive"}
RESP_HNAMES = ["ETag", "x-ms-request-id", "Content-Type", "X-Multi", "x-multi", "Cache-Control", "Server", "x-ms-version", "Set-Cookie", "Vary"]


def hmulti(headers, drop):
    return collections.Counter((k.lower(), v) for k, v in headers if k.lower() not in drop)


def gen_response(r, vid, big):
    status = r.choice([200, 200, 200, 201, 202, 204, 301, 304, 400, 401, 403, 404, 410, 429, 500, 503, 599, 299])
    hs = [("x-vf-resp", vid)]
    for _ in range(r.randrange(0, 12)):
        k = r.choice(RESP_HNAMES)
        v = gen_http.token(r, r.randrange(0, 40))
        if r.random() < 0.1:
            v = v + "; q=0.5, " + gen_http.token(r, 5)
        hs.append((k, v))
    if r.random() < 0.08:
        hs.append(("x-obs", b"caf\xe9 \xff\x80"))
    if r.random() < 0.04:
        # a large header block (several multi-KB token headers, e.g. signed tokens): 12-60 KB of response head
        for i in range(r.randrange(2, 10)):
            hs.append(("x-token-%d" % i, gen_http.token(r, 6000)))
    nobody = status in (204, 304)
    size = 0 if nobody else r.choice([0, 1, 17, 1000, r.randrange(0, 70000), r.randrange(0, 1 << 20) if big else 5000])
    body = bytes(r.getrandbits(8) for _ in range(min(size, 4096)))
    if size > 4096:
        body = (body * (size // 4096 + 1))[:size]
    body = vid.encode() + b"|" + body if not nobody else b""
    framing = "cl" if nobody else r.choice(["cl", "cl", "chunked", "chunked", "close"])
    spec = {"status": status, "reason": "R", "headers": hs, "body": body, "framing": framing}
    if framing == "chunked":
        # sizes at and a few bytes around the buffer-size boundaries, besides tiny and arbitrary ones
        spec["chunks"] = [r.choice([1, 2, 7, 100, 4096, 65536, r.randrange(1, 70000), r.choice([4096, 8192, 16384, 65536]) + r.randrange(-4, 5)]) for _ in range(40)]
    if r.random() < 0.3:
        spec["segments"] = [r.randrange(1, 3000) for _ in range(30)]
    return spec


def worker(args, scratch):
    r = common.rng("c14", args["shard"], args["tier"])
    res = {"evaluations": 0, "nontrivial": [], "samples": [], "counts": {}, "violations": []}
    cnt = res["counts"]
    lock = threading.Lock()
    registry = {}
    registry_long_ref = {}

    def bump(k, n=1):
        with lock:
            cnt[k] = cnt.get(k, 0) + n

    def viol(sig, wit):
        with lock:
            res["violations"].append([sig, wit])

    def handler(name, req):
        vid = (req.header("x-vf-id") or b"").decode()
        spec = registry.get(vid) or registry_long_ref.get(vid)
        if spec is None:
            return {"status": 200, "body": b"unregistered"}
        return spec
    # a single-threaded runtime makes the scheduling between the per-connection server task and the upstream connection task tight
    wrapper, vgdir = (common.memcheck_wrapper(scratch) if args.get("memcheck") else (None, None))
    w = wproxy.World(scratch, runtime=args.get("runtime", "multi:8"), handler=handler, log_level="Info", wrapper=wrapper)
    burners = []
    if args.get("stress"):
        import subprocess, sys
        burners = [subprocess.Popen([sys.executable, "-c", "while True: pass"]) for _ in range(args["stress"])]
    try:
        root = w.identity("root", "helper", [])
        guid, secret = "eeeeeeee-0000-4000-8000-000000000001", "%064x" % r.getrandbits(256)
        if args["shard"] % 2 == 0:
            w.key(guid, secret)

        def one_connection(ci):
            rr = common.rng("c14-conn", args["shard"], ci)
            dest = rr.choice(["wireserver", "imds", "hostga", "other"])
            conn = w.open(dest, root, timeout=60)
            nreq = rr.randrange(1, args["max_per_conn"])
            k = 0
            closed = False
            maybe_closed = False    # the host asked to close its connection with the previous response
            while k < nreq:
                closed = False
                depth = rr.choice([1, 1, 1, 2, 3, 4])
                batch = []
                for _ in range(depth):
                    vid = "c14-%d-%d-%d" % (args["shard"], ci, k)
                    k += 1
                    method = rr.choice(["GET", "POST", "PUT", "DELETE", "PATCH", "OPTIONS"])
                    exempt = rr.random() < 0.1
                    if exempt:
                        method, target = rr.choice([("PUT", "/vmAgentLog"), ("POST", "/machine/?comp=telemetrydata")])
                    else:
                        target = rr.choice(["/", "/a/b?x=1&y=2", "/machine?comp=goalstate", "/p%20q/R?Z=%41", "/q?text=Loading...&range=1..5", "/s?path=../x&v=a..b"]) + ("" if rr.random() < 0.5 else "&" * 0)
                    if not exempt and rr.random() < 0.08:
                        # absolute-form request target naming the recorded destination (what a client configured with an HTTP proxy sends)
                        dip, dport = wproxy.DESTS[dest]
                        target = "http://%s:%d%s" % (dip, dport, rr.choice(["/abs/path?x=1&y=2", "/machine?comp=goalstate&incarnation=3", "/abs"]))
                    hs = gen_http.headers(rr)
                    if rr.random() < 0.15:
                        hs += [("X-Rep", "one"), ("x-rep", "two")]
                    hs.append(("x-vf-id", vid))
                    body, chunked = b"", None
                    if method in ("POST", "PUT", "PATCH"):
                        limit = args["exempt_max"] if exempt else 100 * 1024
                        size = rr.choice([0, 1, 100, rr.randrange(0, 5000), rr.randrange(0, limit + 1), limit if rr.random() < 0.3 else 10])
                        blk = bytes(rr.getrandbits(8) for _ in range(min(size, 2048)))
                        body = (blk * (size // 2048 + 1))[:size] if size else b""
                        if rr.random() < 0.35 and size:
                            chunked = [rr.choice([1, 3, 100, 5000, 65536]) for _ in range(64)]
                    spec = gen_response(rr, vid, args["big"])
                    if depth >= 2 and len(batch) < depth - 1 and rr.random() < 0.7 and spec["status"] not in (204, 304):
                        # a large content-length response directly followed by an already buffered (pipelined) request
                        n_big = rr.choice([70000, 200000, 800000])
                        spec["framing"] = "cl"; spec.pop("chunks", None)
                        spec["body"] = vid.encode() + b"|" + (bytes(rr.getrandbits(8) for _ in range(1024)) * (n_big // 1024))
                    if spec["framing"] != "close" and spec["status"] not in (204, 304) and rr.random() < 0.1:
                        # the host announces that it closes its connection after this (normally framed) response
                        spec["headers"].append(("Connection", "close")); spec["close"] = True
                    if spec["framing"] == "close" or spec.get("close"):
                        closed = True
                    with lock:
                        registry[vid] = spec
                    raw = rawhttp.build_request(method, target, hs, body, chunked=chunked)
                    batch.append((vid, method, target, hs, body, chunked, spec, raw))
                    if closed:
                        break
                wire = b"".join(b[-1] for b in batch)
                segs = None
                if rr.random() < 0.4:
                    segs = [rr.choice([1, 2, 5, 17, 100, 1400, 9000]) for _ in range(60)]
                try:
                    try:
                        conn.send(wire, segments=segs)
                        first = conn.read_response(batch[0][1].encode())
                    except (OSError, rawhttp.ParseError):
                        # after a response with which the host closed its connection, the client connection may be closed as well: a client
                        # then reconnects and repeats the request. Anything else (an error status made up by the proxy, a request relayed
                        # and then lost) is not transparent.
                        if not maybe_closed or any(w.upstream(b[0]) for b in batch):
                            raise
                        bump("reconnects_after_host_closed_its_connection")
                        conn.close()
                        conn = w.open(dest, root, timeout=60)
                        conn.send(wire, segments=segs)
                        first = conn.read_response(batch[0][1].encode())
                    else:
                        if maybe_closed:
                            bump("client_connection_survived_host_close")
                    for bi, (vid, method, target, hs, body, chunked, spec, raw) in enumerate(batch):
                        resp = first if bi == 0 else conn.read_response(method.encode())
                        check(vid, method, target, hs, body, chunked, spec, resp, dest, len(batch), segs is not None, after_host_close=maybe_closed and bi == 0)
                except Exception as e:  # noqa
                    if common.is_timeout(e):
                        res.setdefault("inconclusive", []).append("client socket watchdog (60 s) fired while waiting for the proxy; not a verdict") if not res.get("inconclusive") else None
                    else:
                        viol("exchange-failed", {"conn": ci, "dest": dest, "ids": [b[0] for b in batch], "err": repr(e), "after_host_close": maybe_closed})
                    break
                maybe_closed = closed
            conn.close()

        def check(vid, method, target, hs, body, chunked, spec, resp, dest, depth, segmented, after_host_close=False):
            with lock:
                res["evaluations"] += 1
            ups = w.upstream(vid)
            wit = {"id": vid, "dest": dest, "method": method, "target": target, "req_body_len": len(body), "req_chunked": chunked is not None, "pipeline_depth": depth,
                   "resp_status": spec["status"], "resp_framing": spec["framing"], "resp_body_len": len(spec["body"]), "first_request_after_the_host_closed_its_connection": after_host_close}
            if after_host_close:
                bump("requests_following_a_host_close")
            if len(ups) != 1:
                logs = []
                try:
                    import glob
                    for f in glob.glob("/var/log/azure-proxy-agent/ProxyAgent*.log"):
                        for line in open(f, errors="replace"):
                            if "503 Service" in line or "Failed to send" in line:
                                logs.append(line.strip()[-260:])
                except Exception:
                    pass
                viol("request-not-relayed-exactly-once", dict(wit, seen=len(ups), client_got_status=resp.status, agent_log=logs[:4])); return
            u = ups[0]
            if u.host != dest:
                viol("relayed-to-wrong-host", wit)
            if u.method.decode() != method or u.target.decode() != target:
                viol("method-or-target-changed", dict(wit, got=u.start.decode("latin-1")))
            if u.body != body:
                viol("request-body-changed", dict(wit, got_len=len(u.body), sha_sent=hashlib.sha256(body).hexdigest(), sha_got=hashlib.sha256(u.body).hexdigest()))
            sent_h = hmulti([((k if isinstance(k, bytes) else k.encode()), (v if isinstance(v, bytes) else v.encode()).strip(b" \t")) for k, v in hs] + [(b"host", b"x")], OWNED | FRAMING)
            got_h = hmulti(u.headers, OWNED | FRAMING)
            if sent_h != got_h:
                viol("request-headers-changed", dict(wit, missing=[str(x) for x in (sent_h - got_h)], extra=[str(x) for x in (got_h - sent_h)]))
            # client view
            if resp.status != spec["status"]:
                viol("response-status-changed", dict(wit, got=resp.status))
            if resp.body != spec["body"]:
                viol("response-body-changed", dict(wit, got_len=len(resp.body)))
            if (resp.header("x-vf-resp") or b"").decode() != vid:
                viol("response-delivered-to-wrong-request", dict(wit, got=str(resp.header("x-vf-resp"))))
            exp_h = hmulti([((k if isinstance(k, bytes) else k.encode()), (v if isinstance(v, bytes) else v.encode())) for k, v in spec["headers"]], FRAMING | {b"date"})
            gh = hmulti(resp.headers, FRAMING | {b"date"})
            marker = (b"x-ms-azure-host-authorization", b"value")
            if gh[marker] != 1:
                viol("marker-header-count-%d" % gh[marker], wit)
            gh[marker] = 0
            gh = +gh
            if gh != exp_h:
                viol("response-headers-changed", dict(wit, missing=[str(x) for x in (exp_h - gh)], extra=[str(x) for x in (gh - exp_h)]))
            if body or spec["body"] or depth > 1:
                size_class = lambda n: 0 if n == 0 else len(str(n))
                with lock:
                    res["nontrivial"].append(common.sha([("chunked" if chunked else "cl"), spec["framing"], size_class(len(body)), size_class(len(spec["body"])), depth, segmented, method]))
            bump("req_framing:%s" % ("chunked" if chunked is not None else "cl/none"))
            bump("resp_framing:%s" % spec["framing"])
            bump("pipeline_depth:%d" % depth)
            bump("bytes_relayed", len(body) + len(spec["body"]))
            if len(res["samples"]) < 3:
                with lock:
                    res["samples"].append(wit)
        # one connection that stays in use for more than ten seconds (requests at 0, 4, 8 and 12 s after it was accepted), alongside the rest
        long_lived_result = []

        def long_lived():
            try:
                conn = w.open("imds", root, timeout=60)
                for k, pause in enumerate([0, 4, 4, 4]):
                    time.sleep(pause)
                    vid = "c14-%d-long-%d" % (args["shard"], k)
                    spec = {"status": 200, "reason": "R", "headers": [("x-vf-resp", vid)], "body": vid.encode() + b"|long-lived", "framing": "cl"}
                    with lock:
                        registry_long[vid] = spec
                    conn.send(rawhttp.build_request("GET", "/long/%d?k=v" % k, [("x-vf-id", vid)]))
                    resp = conn.read_response(b"GET")
                    long_lived_result.append((vid, spec, resp))
                conn.close()
            except Exception as e:  # noqa
                long_lived_result.append(("error", repr(e), common.is_timeout(e)))
        registry_long = registry_long_ref
        lt = None
        if args["shard"] % 4 == 1 and not args.get("memcheck"):
            lt = threading.Thread(target=long_lived)
            lt.start()
        total = args["connections"]
        conc = args["concurrency"]
        idx = 0
        while idx < total:
            ts = [threading.Thread(target=one_connection, args=(ci,)) for ci in range(idx, min(total, idx + conc))]
            for t in ts: t.start()
            for t in ts: t.join()
            idx += conc
            registry.clear()
            for m in w.mocks.values():
                with m.lock:
                    m.requests[:] = [q for q in m.requests if b"-long-" in (q.header("x-vf-id") or b"")]; m.conn_raw.clear()
        if lt is not None:
            lt.join()
            for item in long_lived_result:
                if item[0] == "error":
                    if item[2]:
                        res.setdefault("inconclusive", []).append("client socket watchdog fired on the long-lived connection; not a verdict")
                    else:
                        viol("exchange-failed", {"conn": "long-lived (12 s)", "err": item[1]})
                    continue
                vid, spec, resp = item
                check(vid, "GET", "/long/%s?k=v" % vid.rsplit("-", 1)[1], [("x-vf-id", vid)], b"", None, spec, resp, "imds", 1, False)
                bump("requests_on_a_connection_older_than_10s" if vid.endswith("-3") else "requests_on_the_long_lived_connection")
        for p in w.shim.panics():
            viol("panic:%s" % p.get("location"), p)
    finally:
        for b in burners:
            b.kill()
        w.close()
    if vgdir:
        # supplementary sanitizer pass: the same data path under valgrind memcheck (hyper/bytes/tokio/libc as built for the agent)
        time.sleep(0.5)
        reports, summaries = common.memcheck_reports(vgdir)
        cnt["memcheck_error_summaries"] = len(summaries)
        cnt["memcheck_reports"] = len(reports)
        seen = set()
        for rp in reports:
            key = (rp["kind"], rp["first_agent_frame"])
            if key in seen:
                continue
            seen.add(key)
            res["violations"].append(["memcheck:%s" % rp["kind"], rp])
        if not summaries:
            res.setdefault("inconclusive", []).append("memcheck slice produced no valgrind summary")
    return res


def run(tier, rep):
    wproxy.build_helper()
    rep.coverage["rule"] = ("exchanges through the real ProxyServer with an echo-scripted mock: requests = method x target x random/padded/repeated headers x body 0..100KiB (signed class) or up to 2MiB/8MiB (exempt class), "
                            "content-length or chunked with random chunk sizes, TCP-segmented at random byte positions, 1-15 requests per keep-alive connection, true pipelining depth 1-4, 8-16 concurrent connections; "
                            "responses = status 200-599, 0-12 headers incl. repeated names and obs-text bytes, body 0..1MiB binary, content-length / chunked (random chunk sizes) / close-delimited, segmented writes. oracle compares "
                            "bytes at the mock and at the client socket (header multisets modulo proxy-owned and framing headers, Date on the response leg). non-trivial = body on either leg or pipelined; "
                            "distinct by (request framing, response framing, size classes, depth, segmentation, method)")
    shards = 8 if tier == "quick" else 16
    args = [{"shard": i, "tier": tier, "connections": 160 if tier == "quick" else 1500, "concurrency": 8 if i % 2 else 16, "max_per_conn": 15,
             "exempt_max": (2 << 20) if tier == "quick" else (8 << 20), "big": i % 3 == 0, "runtime": ["multi:8", "multi:8", "multi:4", "current"][i % 4], "stress": 0 if i % 4 == 3 else (8 if tier == "quick" else 3)} for i in range(shards)]
    if tier == "thorough":
        # memcheck slice: ~25x slower, so 1/50 of a shard, no CPU burners, generous socket timeouts
        args.append({"shard": 1000, "tier": tier, "connections": 120, "concurrency": 4, "max_per_conn": 6, "exempt_max": 1 << 20, "big": True, "runtime": "multi:2", "stress": 0, "memcheck": True})
    for res in sandbox.run_many("vf.props.c14", "worker", args, workers=shards, timeout=3000):
        rep.merge_worker(res)
    rep.assumptions += ["header order across different names and header-name letter case are not compared (no meaning in HTTP; hyper normalises names)",
                        "leading/trailing blanks of request header values are not significant", "reason phrases are not compared",
                        "trailers, Expect: 100-continue, Upgrade/CONNECT and 1xx responses are not generated (outside the statement)"]

"""C16 - Provisioning status is truthful under any arrival order."""
import itertools, json, os, re, subprocess, threading, time
from .. import common, sandbox, shim as shimmod, rawhttp

R, K, L = 1, 2, 4
ALL = 7
NAMES = [(R, "ebpfProgramStatus", "Redirector"), (K, "keyLatchStatus", "KeyKeeper"), (L, "proxyListenerStatus", "ProxyServer")]
TAG_DIR = "/var/lib/azure-proxy-agent/keys"


def error_text_flags(text):
    """flags whose complement the error text names; None if the text is not one line per subsystem in the fixed order"""
    lines = text.split("\r\n")
    if lines[-1] != "":
        return None
    lines = lines[:-1]
    clear = 0
    order = []
    for ln in lines:
        m = re.match(r"^(ebpfProgramStatus|keyLatchStatus|proxyListenerStatus) - ", ln)
        if not m:
            return None
        bit = {n: b for b, n, _ in NAMES}[m.group(1)]
        order.append(bit)
        clear |= bit
    if order != sorted(order) or len(set(order)) != len(order):
        return None
    return ALL & ~clear


def linearizations(ops):
    """all orders of the state-changing ops consistent with real-time precedence (A before B if A returned before B was called)"""
    n = len(ops)
    for perm in itertools.permutations(range(n)):
        pos = {o: i for i, o in enumerate(perm)}
        ok = True
        for a in range(n):
            for b in range(n):
                if a != b and ops[a]["t1"] < ops[b]["t0"] and pos[a] > pos[b]:
                    ok = False; break
            if not ok:
                break
        if ok:
            yield [ops[i] for i in perm]


def states_for_query(order, q):
    """spec states (flags, tick_lo, tick_hi, deadline) that can be current at some instant inside q's interval for this order.
    tick_lo/hi = interval of the unix tick at which 'finished' was established (0,0 = not finished)"""
    out = []
    flags, ticks, dl = 0, {(0, 0)}, False   # ticks: set of possible 'finished' instants (interval of the establishing op); (0,0) = not finished
    # position p: q takes effect after the first p ops. allowed iff ops[:p] all started before q returned and ops[p:] all returned after q was called
    for p in range(len(order) + 1):
        if p > 0:
            op = order[p - 1]
            w = op["what"]
            if w in ("redirector_ready", "listener_started", "key_latched"):
                flags |= {"redirector_ready": R, "listener_started": L, "key_latched": K}[w]
                if flags == ALL:
                    ticks = {(op["u0"], op["u1"])}
            elif w == "reset":
                flags &= ~K
                ticks = {(op["u0"], op["u1"])} if flags == ALL else {(0, 0)}
            elif w == "timeup":
                # the deadline passed: 'finished' at this instant; when everything was ready already the earlier instant may stay
                if flags != ALL:
                    ticks = {(op["u0"], op["u1"])}
                else:
                    ticks = ticks | {(op["u0"], op["u1"])}
                dl = True
        before_ok = all(o["t0"] < q["t1"] for o in order[:p])
        after_ok = all(o["t1"] > q["t0"] for o in order[p:])
        if before_ok and after_ok:
            for tick in ticks:
                out.append((flags, tick, dl))
    return out


def judge(history, res, label):
    changing = [o for o in history if o["what"] in ("redirector_ready", "listener_started", "key_latched", "reset", "timeup")]
    queries = [o for o in history if o["what"] in ("query", "http")]
    if len(changing) > 7:
        return "too-long"
    orders = list(linearizations(changing))
    res["counts"]["linearizations_examined"] = res["counts"].get("linearizations_examined", 0) + len(orders)
    latched = history and history[0].get("channel_latched")
    for q in queries:
        fin_ok = False
        txt_ok = False
        flags_named = error_text_flags(q["error"])
        if flags_named is None:
            res["violations"].append(["error-text-malformed", {"query": q, "label": label}])
            continue
        for order in orders:
            for flags, tick, dl in states_for_query(order, q):
                if flags == flags_named:
                    txt_ok = True
                if q["what"] == "query":
                    # internal getter returns the tick itself: 0 iff not finished, else inside the establishing op's interval
                    t = q["tick_value"]
                    if (t == 0 and tick == (0, 0)) or (t != 0 and tick != (0, 0) and tick[0] <= t <= tick[1]):
                        fin_ok = True
                else:
                    qt = q["tick"]
                    if latched:
                        exp = {True}
                    elif tick == (0, 0):
                        exp = {False}
                    elif qt <= tick[0]:
                        exp = {True}
                    elif qt > tick[1]:
                        exp = {False}
                    else:
                        exp = {True, False}
                    if q["finished"] in exp:
                        fin_ok = True
            if fin_ok and txt_ok:
                break
        wit = {"label": label, "query": q, "state_changing_ops": [{k: o[k] for k in ("what", "t0", "t1", "u0", "u1")} for o in changing]}
        if not fin_ok:
            sig = "finished-reported-without-all-ready-or-deadline" if (q.get("finished") or q.get("tick_value")) else "not-finished-although-all-ready-or-deadline"
            if q["what"] == "http" and q["tick"] <= 0 and q["finished"]:
                sig = "finished-reported-for-non-positive-time-tick"
            res["violations"].append([sig, wit])
        if not txt_ok:
            res["violations"].append(["error-text-names-a-state-not-current-during-the-query", wit])
    return "ok"


def worker(args, scratch):
    res = {"evaluations": 0, "nontrivial": [], "samples": [], "counts": {}, "violations": []}
    cnt = res["counts"]
    orders_seen = set()
    for h in range(args["histories"]):
        r = common.rng("c16", args["shard"], h, args["tier"])
        hdir = os.path.join(scratch, "h%d" % h)
        if h % 10 == 7:
            # query storm: hundreds of status queries are waiting in the provision actor's mailbox (the actor takes 1-2 ms per message, hook H3)
            # when the last subsystems report ready: a report may have to wait, it may not be lost
            subprocess.run("rm -rf /var/lib/azure-proxy-agent /var/log/azure-proxy-agent; mkdir -p /var/log/azure-proxy-agent", shell=True)
            sh = shimmod.Shim(hdir, runtime="multi:4", env={"GPA_VERIF_DELAY": "actor_provision:1000:2000", "GPA_VERIF_DELAY_SEED": str(h + 3)})
            try:
                sh.call("init", log_dir="/var/log/azure-proxy-agent", log_level="Info")
                sh.call("proxy_start", port=3080)
                handles = [sh.call_async("prov", what="query") for _ in range(400)]
                reports = [sh.call_async("prov", what=wh) for wh in ("redirector_ready", "key_latched")]
                for hd in handles + reports:
                    try:
                        sh.wait(hd, 300)
                    except Exception:  # noqa
                        pass
                time.sleep(0.1)
                fl = sh.call("prov", what="flags", timeout=300)["result"]
                res["evaluations"] += 1
                cnt["query_storm_histories"] = cnt.get("query_storm_histories", 0) + 1
                if fl["flags"] != ALL:
                    res["violations"].append(["readiness-report-lost", {"final": fl, "history": "400 queries queued at the provision actor, then redirector_ready and key_latched reported (all calls completed)"}])
                elif int(fl["finished_time_tick"]) == 0:
                    res["violations"].append(["quiescent-finished-flag-disagrees-with-readiness", {"final": fl, "history": "query storm"}])
                res["nontrivial"].append("query-storm-%d" % (h % 3))
                for p in sh.panics():
                    res["violations"].append(["panic:%s" % p.get("location"), p])
            finally:
                sh.close()
            continue
        env = {}
        if args["delays"] and h % 2 == 0:
            env = {"GPA_VERIF_DELAY": "provision_update:600:1500,provision_reset:600:1500,provision_timeup:600:1500", "GPA_VERIF_DELAY_SEED": str(h + 1)}
        subprocess.run("rm -rf /var/lib/azure-proxy-agent /var/log/azure-proxy-agent; mkdir -p /var/log/azure-proxy-agent", shell=True)
        sh = shimmod.Shim(hdir, runtime="multi:%d" % r.choice([2, 4, 8]), env=env)
        history = []
        hl = threading.Lock()
        try:
            sh.call("init", log_dir="/var/log/azure-proxy-agent", log_level="Info")
            # every fifth history has no listener yet: its readiness report arrives like the other two, at a random moment, and queries
            # (direct ones only, there is nothing to connect to) see moments at which the listener is among the subsystems not ready
            nolistener = h % 5 == 2
            if not nolistener:
                sh.call("proxy_start", port=3080)   # calls listener_started itself
            latched = r.random() < 0.1
            if latched:
                sh.call("set_channel_state", state="wireserver")
            msgs = {}
            for bit, _, module in NAMES:
                msgs[module] = "%s-status-%s" % (module, "x" * r.choice([5, 400, 900]))
                sh.call("status_message", module=module, message=msgs[module])
            t_begin = int(sh.call("prov", what="now_tick")["result"])

            def do(what, **kw):
                o = sh.call("prov", what=what, **kw)
                rec = {"what": what, "t0": int(o["t0"]), "t1": int(o["t1"]), "u0": int(o["u0"]), "u1": int(o["u1"]), "channel_latched": latched}
                if what == "query":
                    rec["tick_value"] = int(o["result"]["finished_time_tick"]); rec["error"] = o["result"]["error_message"]
                with hl:
                    history.append(rec)
                return o

            def http_query(tick, notify):
                t0 = time.monotonic_ns()
                c = rawhttp.Conn("127.0.0.1", 3080, timeout=5)
                hs = [("Metadata", "True"), ("x-ms-azure-time_tick", str(tick))] + ([("x-ms-azure-notify", "1")] if notify else [])
                c.send(rawhttp.build_request("GET", "/provision", hs))
                resp = c.read_response()
                c.close()
                t1 = time.monotonic_ns()
                j = json.loads(resp.body)
                with hl:
                    history.append({"what": "http", "t0": t0, "t1": t1, "tick": tick, "finished": j["finished"], "error": j["errorMessage"], "channel_latched": latched})
            # the listener reported ready inside proxy_start; record it as an op that completed before everything else
            if not nolistener:
                history.append({"what": "listener_started", "t0": 0, "t1": 1, "u0": 0, "u1": t_begin, "channel_latched": latched})
            else:
                cnt["histories_with_the_listener_reporting_late"] = cnt.get("histories_with_the_listener_reporting_late", 0) + 1
            ticks = [0, -5, 1, t_begin, 2 ** 100]

            race = h % 4 == 3   # production-shaped overlap: the last readiness report arrives while the key keeper runs the deadline handler
            gate = threading.Barrier(2)

            late = h % 4 == 1   # the key latch is reported and reset again BEFORE the last subsystem reports (a reset while nothing is finished yet)

            def redirector():
                if race or late:
                    gate.wait(5)
                else:
                    time.sleep(r.random() * 0.004)
                do("redirector_ready")

            def keeper():
                if race:
                    do("key_latched")
                    gate.wait(5)
                    do("timeup", dir=None)
                    return
                if late:
                    do("key_latched")
                    if r.random() < 0.5:
                        do("key_latched")
                    do("reset")
                    gate.wait(5)
                    return
                for _ in range(r.randrange(1, 5)):
                    time.sleep(r.random() * 0.003)
                    w = r.choice(["key_latched", "key_latched", "reset", "timeup"])
                    do(w, **({"dir": None} if w == "timeup" else {}))
                    ticks.append(int(time.time() * 1e9))

            def querier(qi):
                rr = common.rng("c16q", args["shard"], h, qi)
                for _ in range(rr.randrange(1, 5)):
                    time.sleep(rr.random() * 0.004)
                    if rr.random() < 0.5 or nolistener:
                        do("query")
                    else:
                        http_query(rr.choice(ticks), rr.random() < 0.2)
            # reader of the tag file + inotify event stream
            stop = threading.Event()
            tag_reads = []

            def tag_reader():
                p = os.path.join(TAG_DIR, "status.tag")
                while not stop.is_set():
                    try:
                        with open(p, "rb") as f:
                            tag_reads.append(f.read())
                    except OSError:
                        pass
            os.makedirs(TAG_DIR, exist_ok=True)
            ino = subprocess.Popen(["inotifywait", "-m", "-q", "--format", "%e %f", TAG_DIR], stdout=subprocess.PIPE, stderr=subprocess.DEVNULL)
            time.sleep(0.05)
            def listener():
                time.sleep(r.random() * 0.006)
                do("listener_started")
            ths = [threading.Thread(target=redirector), threading.Thread(target=keeper), threading.Thread(target=tag_reader)] + \
                  [threading.Thread(target=querier, args=(qi,)) for qi in range(r.randrange(1, 6))] + ([threading.Thread(target=listener)] if nolistener else [])
            for t in ths: t.start()
            for t in ths:
                if t is not ths[2]:
                    t.join()
            time.sleep(0.03)
            stop.set(); ths[2].join()
            final = sh.call("prov", what="flags")["result"]
            ino.terminate()
            ino_out = ino.communicate()[0].decode()
            res["evaluations"] += 1
            verdict = judge(history, res, "shard%d-h%d" % (args["shard"], h))
            # quiescent invariant: without a deadline event, finished <=> all ready
            had_deadline = any(o["what"] == "timeup" for o in history)
            if not had_deadline:
                fin = int(final["finished_time_tick"]) != 0
                if fin != (final["flags"] == ALL):
                    res["violations"].append(["quiescent-finished-flag-disagrees-with-readiness", {"final": final, "ops": [(o["what"], o["t0"], o["t1"]) for o in history if o["what"] not in ("query", "http")]}])
            # race-shaped cycles: a key-latch report (the LAST readiness report: it completes ALL_READY) started together with a
            # key-latch reset, delay points on. Whatever order the two linearize in, at quiescence finished <=> all ready.
            if h % 4 == 2 and not had_deadline and not res["violations"]:
                for cyc in range(args.get("race_cycles", 20)):
                    pair = [threading.Thread(target=lambda: sh.call("prov", what="key_latched")), threading.Thread(target=lambda: sh.call("prov", what="reset"))]
                    if cyc % 2:
                        pair.reverse()
                    for t in pair: t.start()
                    for t in pair: t.join()
                    fl = sh.call("prov", what="flags")["result"]
                    cnt["reset_vs_last_ready_report_race_cycles"] = cnt.get("reset_vs_last_ready_report_race_cycles", 0) + 1
                    key = "race_cycle_outcome:%s" % ("all-ready" if fl["flags"] == ALL else "not-ready")
                    cnt[key] = cnt.get(key, 0) + 1
                    if (int(fl["finished_time_tick"]) != 0) != (fl["flags"] == ALL):
                        res["violations"].append(["quiescent-finished-flag-disagrees-with-readiness", {"final": fl, "cycle": cyc, "ops": "key_latched || reset (started together, delay points on)"}])
                        break
                res["evaluations"] += 1
            # tag file: only complete messages, only replaced by rename
            valid_msgs = set(msgs.values())
            for data in set(tag_reads):
                text = data.decode("utf-8", "replace")
                ok = True
                if text:
                    lines = text.split("\r\n")
                    if lines[-1] != "":
                        ok = False
                    for ln in lines[:-1]:
                        m = re.match(r"^(ebpfProgramStatus|keyLatchStatus|proxyListenerStatus) - (.*)$", ln)
                        if not m:
                            ok = False
                        elif not (m.group(2) in valid_msgs or m.group(2).startswith(("eBPF", "Started", "Status unknown", "poll", "Found", "Success"))):
                            ok = False
                if not ok:
                    res["violations"].append(["status-tag-observed-half-written", {"content": text[:300], "len": len(text)}])
            cnt["tag_file_reads"] = cnt.get("tag_file_reads", 0) + len(tag_reads)
            cnt["tag_file_distinct_contents"] = cnt.get("tag_file_distinct_contents", 0) + len(set(tag_reads))
            for line in ino_out.splitlines():
                ev, _, name = line.partition(" ")
                if name == "status.tag" and any(e in ev.split(",") for e in ("MODIFY", "CLOSE_WRITE", "CREATE")):
                    res["violations"].append(["status-tag-written-in-place", {"inotify": line}]); break
                if name == "status.tag" and "MOVED_TO" in ev:
                    cnt["status_tag_renames_seen"] = cnt.get("status_tag_renames_seen", 0) + 1
            changing = sorted([o for o in history if o["what"] in ("redirector_ready", "key_latched", "reset", "timeup")], key=lambda o: o["t0"])
            overlap = any(a["t1"] > b["t0"] and b["t1"] > a["t0"] for a in history for b in history if a is not b and (a["what"] in ("reset", "timeup")) and b["what"] in ("redirector_ready", "key_latched", "query", "http"))
            order_sig = ",".join(o["what"][:3] for o in changing)
            orders_seen.add(order_sig)
            if overlap:
                res["nontrivial"].append(common.sha([order_sig, len(history), h, args["shard"]]))
            if len(res["samples"]) < 2:
                res["samples"].append({"ops": [{k: o.get(k) for k in ("what", "t0", "t1", "finished", "tick", "tick_value")} for o in sorted(history, key=lambda o: o["t0"])][:12]})
            if env:
                c = sh.call("delay_counts")["counts"]
                cnt["delay_point_firings"] = cnt.get("delay_point_firings", 0) + sum(v[1] for v in c.values())
            for p in sh.panics():
                res["violations"].append(["panic:%s" % p.get("location"), p])
        finally:
            sh.close()
            try:
                ino.kill()
            except Exception:
                pass
    cnt["distinct_orders_of_state_changing_ops"] = list(orders_seen)[:200]
    return res


def run(tier, rep):
    rep.coverage["rule"] = ("per history a fresh shim process (2-8 worker threads): the real ProxyServer reports listener ready, a 'redirector' thread calls redirector_ready once, a 'key keeper' thread issues 1-4 of "
                            "{key_latched, key_latch_ready_state_reset, provision_timeup}, 1-5 query threads call get_provision_state_internal and HTTP GET /provision with ticks {0, negative, 1, start, between events, far future} "
                            "with/without notify; delay points between the two actor messages on in half of the histories; every call logged at the caller with monotonic and unix timestamps. oracle: each query must be "
                            "explained by some linearization of the state-changing ops (effects inside [call, return]) of the sequential spec written from the statement; quiescent invariant finished<=>all ready (no deadline); "
                            "status.tag read in a tight loop must always be a complete message and inotify must show it replaced only by rename. non-trivial = history where a reset/deadline overlaps a ready report or a query; "
                            "distinct by (order of state-changing ops, length)")
    shards = 8 if tier == "quick" else 16
    args = [{"shard": i, "tier": tier, "histories": 40 if tier == "quick" else 1500, "delays": True} for i in range(shards)]
    for res in sandbox.run_many("vf.props.c16", "worker", args, workers=shards, timeout=6000):
        rep.merge_worker(res)
    rep.coverage["distinct_orders_seen"] = len(rep.coverage.get("distinct_orders_of_state_changing_ops", []))
    rep.assumptions += ["a query is not instantaneous: its finished bit and its error text may each stem from any state current inside the query's interval",
                        "ticks that fall inside the interval of the operation that established 'finished' are not judged"]

"""C18 - Telemetry is delivered at most once, well-formed, in bounded batches."""
import json, os, re, threading, time
import xml.parsers.expat
import xml.etree.ElementTree as ET
from .. import common, sandbox, shim as shimmod, mockhost, hostdocs

EVDIR = "/var/log/azure-proxy-agent/events"
HOSTILE = ["<", ">", "&", '"', "'", "]]>", "<![CDATA[", "</Event>", "&amp;", "&lt;", "<Param Name=\"Context1\" Value=\"x\" />", "é", "😀", "漢字", "  ", "]]", "]]&gt;", "-->", "<?xml?>", "%s", "{}", "\\"]
PARAMS = ["OpcodeName", "KeywordName", "TaskName", "TenantName", "RoleName", "RoleInstanceName", "ContainerId", "ResourceGroupName", "SubscriptionId"]


def hostile_text(r, n):
    out = []
    size = 0
    while size < n:
        if r.random() < 0.35:
            t = r.choice(HOSTILE)
        else:
            t = "".join(r.choice("abcdefghij XYZ0123456789") for _ in range(r.randrange(1, 30)))
        out.append(t)
        size += len(t.encode())
    return "".join(out)


def make_event(msg, i):
    # the id fields of an event file are text as well (whoever wrote the file chose them): now and then they are not decimal numbers
    pid, tid = "123", "456"
    if i % 11 == 5:
        pid, tid = [("12]]><Event id=\"7\"><![CDATA[x]]></Event><![CDATA[", "456"), ("123", "4]]>&<"), (" 77 ", "-1"), ("1<2>&\"'", "99999999999999999999999")][(i // 11) % 4]
    return {"EventLevel": "Info", "Message": msg, "Version": "9.9.9", "TaskName": "task<%d>&" % i, "EventPid": pid, "EventTid": tid,
            "OperationId": "op\"%d\"" % i, "TimeStamp": "2024-09-04T02:00:00.222Z"}


def parse_batch(body):
    """independent XML parse (expat). returns list of (context1 text, all params dict) per event, or raises"""
    root = ET.fromstring(body)   # expat underneath; raises on malformed documents
    if root.tag != "TelemetryData":
        raise ValueError("root is %s" % root.tag)
    provs = list(root)
    if len(provs) != 1 or provs[0].tag != "Provider":
        raise ValueError("expected exactly one Provider")
    events = []
    for ev in provs[0]:
        if ev.tag != "Event" or len(list(ev)) != 0:
            raise ValueError("unexpected element structure under Provider: %s with %d children" % (ev.tag, len(list(ev))))
        frag = ET.fromstring("<r>" + (ev.text or "") + "</r>")
        params = {}
        for p in frag:
            if p.tag != "Param" or (p.text or "").strip() or len(list(p)):
                raise ValueError("event fragment is not a flat Param list")
            if p.get("Name") in params:
                raise ValueError("duplicate Param %s" % p.get("Name"))
            params[p.get("Name")] = p.get("Value")
        if (frag.text or "").strip():
            raise ValueError("text outside Params in event fragment")
        events.append(params)
    return events


def worker(args, scratch):
    res = {"evaluations": 0, "nontrivial": [], "samples": [], "counts": {}, "violations": []}
    cnt = res["counts"]

    def bump(k, n=1):
        cnt[k] = cnt.get(k, 0) + n
    posts = []
    plan = {"faults": [], "i": 0}
    goal_count = [0]
    overhead = [None, None]
    lock = threading.Lock()

    def handler(name, req):
        if name == "wireserver" and req.target.lower().startswith(b"/machine/?comp=telemetrydata"):
            with lock:
                i = plan["i"]; plan["i"] += 1
                f = plan["faults"][i] if i < len(plan["faults"]) else "ok"
                posts.append({"i": i, "body": req.body, "outcome": "ok" if f.startswith("ok") else f, "variant": f})
            if f == "ok":
                return {"status": 200, "body": b""}
            if f == "ok-truncated-body":
                # the host accepts the batch (200) but its response body is cut short: the batch IS acknowledged
                bump("acknowledgements_with_truncated_body")
                return {"raw": b"HTTP/1.1 200 OK\r\nContent-Type: text/plain\r\nContent-Length: 32\r\n\r\n12345678", "close": True}
            if f == "ok-with-body":
                return {"status": 200, "headers": [("Content-Type", "text/xml")], "body": b"<ok>" + b"x" * 3000 + b"</ok>", "framing": "chunked", "chunks": [7, 100, 5000]}
            if f == "500":
                return {"status": 500, "body": b"err"}
            if f == "reset":
                return {"reset": True}
            return {"status": 503, "body": b""}
        if name == "wireserver" and req.target.startswith(b"/machine?comp=goalstate"):
            with lock:
                goal_count[0] += 1
        return hostdocs.own_calls_handler(name, req) or {"status": 404, "body": b""}
    ws = mockhost.MockHost("168.63.129.16", 80, lambda q: handler("wireserver", q), name="wireserver")
    imds = mockhost.MockHost("169.254.169.254", 80, lambda q: handler("imds", q), name="imds")
    sh = shimmod.Shim(scratch + "/shim", runtime="paused")
    try:
        sh.call("init", log_dir="/var/log/azure-proxy-agent", log_level="Info")
        os.makedirs(EVDIR, exist_ok=True)
        sh.call("event_reader_start", dir=EVDIR, interval_ms=100, delay_start=False)
        for sc in range(args["scenarios"]):
            r = common.rng("c18", args["shard"], sc, args["tier"])
            with lock:
                posts.clear(); plan["i"] = 0
                fp = r.choice(["all-ok", "all-ok", "one-fail", "random", "five-fails", "six-fails", "odd-acks", "resets", "resets-forever"])
                if fp == "all-ok": plan["faults"] = []
                elif fp == "one-fail": plan["faults"] = [r.choice(["500", "reset"])]
                elif fp == "random": plan["faults"] = [r.choice(["ok", "ok", "500", "reset", "503", "ok-truncated-body", "ok-with-body"]) for _ in range(60)]
                elif fp == "five-fails": plan["faults"] = ["500"] * 4 + ["ok"]
                elif fp == "resets-forever": plan["faults"] = ["reset"] * 100000       # the host drops every connection for as long as the scenario lasts: processing must still end
                elif fp == "resets": plan["faults"] = ["reset"] * r.choice([4, 5, 7, 9]) + ["ok"]      # the host drops the connection, more often than the retry bound
                elif fp == "odd-acks": plan["faults"] = [r.choice(["ok-truncated-body", "ok-with-body"]) for _ in range(60)]
                else: plan["faults"] = ["500", "reset", "500", "503", "500", "ok"]
            originals = {}   # id -> message
            expect_dropped = set()
            size_class = r.choice(["small", "boundary", "huge-one", "many", "markup", "exact", "exact"])
            if size_class == "exact" and overhead[0] is None:
                size_class = "calibrate"
            nfiles = r.randrange(1, 6)
            files = []
            n = 0
            for f in range(nfiles):
                evs = []
                if size_class in ("exact", "calibrate"):
                    break
                nev = {"small": r.randrange(0, 12), "boundary": r.randrange(8, 30), "huge-one": r.randrange(2, 8), "many": r.randrange(100, 400), "markup": r.randrange(1, 20)}[size_class]
                for e in range(nev):
                    eid = "EVT-%d-%d-%d-" % (args["shard"], sc, n); n += 1
                    if size_class == "boundary":
                        ln = r.choice([3000, 4000, 4090, 8000, 20000, 30000, 32000])
                    elif size_class == "huge-one" and e == 1:
                        ln = r.choice([66000, 70000, 200000, 64 * 1024 - 1200, 64 * 1024 - 1300, 64 * 1024 - 1100])
                    elif size_class == "many":
                        ln = r.randrange(0, 300)
                    else:
                        ln = r.randrange(0, 500)
                    msg = eid + hostile_text(r, ln)
                    if size_class == "huge-one" and e == 1 and r.random() < 0.6:
                        # dense multi-byte text: whatever byte offset some code cuts such an event at, it is inside a character for most alignments
                        ch = r.choice(["é", "€", "😀"])
                        msg = eid + "a" * r.randrange(0, 4) + ch * (ln // len(ch.encode()))
                        bump("oversize_or_near_limit_events_of_dense_multibyte_text")
                    originals[eid] = msg
                    evs.append(make_event(msg, n))
                files.append(evs)
            if size_class == "calibrate":
                # one plain event alone: body size - message length = fixed per-batch + per-event overhead (measured, not assumed)
                fp = "all-ok"; plan["faults"] = []
                eid = "EVT-%d-%d-0-" % (args["shard"], sc); msg = eid + "c" * 100
                originals[eid] = msg; files = [[make_event(msg, 0)]]
            if size_class == "exact":
                # two plain events whose batch lands exactly on / next to 65536 bytes: [frame + 2 * per-event] + len(m1) + len(m2) = target
                fp = "all-ok"; plan["faults"] = []
                target = r.choice([65534, 65535, 65536, 65537, 65538])
                frame, per_event = overhead
                total_msg = target - frame - 2 * per_event
                e1 = "EVT-%d-%d-0-" % (args["shard"], sc); e2 = "EVT-%d-%d-1-" % (args["shard"], sc)
                l1 = total_msg // 2; l2 = total_msg - l1
                m1 = e1 + "a" * (l1 - len(e1)); m2 = e2 + "b" * (l2 - len(e2))
                originals[e1] = m1; originals[e2] = m2
                files = [[make_event(m1, 0), make_event(m2, 0)]]
                exact_target = target
            for f, evs in enumerate(files):
                tmp = os.path.join(EVDIR, "tmp%d.part" % f)
                with open(tmp, "w") as fh:
                    json.dump(evs, fh)
                os.rename(tmp, os.path.join(EVDIR, "%d.json" % (1000000 * sc + f)))
            if r.random() < 0.2:
                with open(os.path.join(EVDIR, "%d.json" % (1000000 * sc + 99)), "w") as fh:
                    fh.write("[{broken json")
            # wait: directory consumed and the reader loop came around twice more
            t0 = time.time()
            done = False
            while time.time() - t0 < 60:
                if not [x for x in os.listdir(EVDIR) if x.endswith(".json")]:
                    g0 = goal_count[0]
                    t1 = time.time()
                    while goal_count[0] < g0 + 2 and time.time() - t1 < 10:
                        time.sleep(0.005)
                    done = True
                    break
                time.sleep(0.005)
            res["evaluations"] += 1
            with lock:
                myposts = list(posts)
            wit = {"scenario": sc, "size_class": size_class, "fault_pattern": fp, "files": nfiles, "events": len(originals), "posts": [(p["i"], len(p["body"]), p["outcome"]) for p in myposts][:30]}
            if not done:
                res["violations"].append(["event-processing-did-not-terminate-or-left-files", dict(wit, left=os.listdir(EVDIR))])
                break   # the reader may be stuck for good; later scenarios in this process would only repeat the finding
            if size_class == "calibrate" and len(myposts) == 1:
                one = len(myposts[0]["body"])
                # second calibration point is implicit: an empty Provider frame is constant; measure per-event overhead by the known template
                frame_len = len(b'<?xml version="1.0"?><TelemetryData version="1.0"><Provider id="FFF0196F-EE4C-4EAF-9AA5-776F622DEB4F"></Provider></TelemetryData>')
                overhead[0], overhead[1] = frame_len, one - frame_len - len(list(originals.values())[0].encode())
                # make_event(i=0) task/op names have fixed length for i < 10
            if size_class == "exact":
                sizes = sorted(len(p["body"]) for p in myposts)
                bump("exact_boundary_scenarios")
                cnt.setdefault("exact_batch_sizes_seen", [])
                if sizes and sizes[-1] not in cnt["exact_batch_sizes_seen"] and len(cnt["exact_batch_sizes_seen"]) < 50:
                    cnt["exact_batch_sizes_seen"].append(sizes[-1])
            batches = {}     # body -> list of outcomes
            for p in myposts:
                batches.setdefault(p["body"], []).append(p["outcome"])
            seen_in = {}     # id -> set of distinct batch bodies (hash)
            for body, outcomes in batches.items():
                bump("batches")
                if len(body) >= 65536:
                    res["violations"].append(["batch-not-smaller-than-64KiB", dict(wit, size=len(body))])
                try:
                    evs = parse_batch(body)
                except Exception as e:  # noqa
                    res["violations"].append(["batch-not-well-formed-or-structure-altered", dict(wit, error=repr(e), body_head=body[:300].decode("utf-8", "replace"))])
                    continue
                ids_in_text = re.findall(rb"EVT-\d+-\d+-\d+-", body)
                if len(evs) != len(ids_in_text) and size_class != "markup":
                    pass
                for params in evs:
                    c1 = params.get("Context1")
                    m = re.match(r"^(EVT-\d+-\d+-\d+-)", c1 or "")
                    if not m:
                        res["violations"].append(["event-without-its-text-as-data", dict(wit, params={k: (v or "")[:80] for k, v in params.items()})]); continue
                    eid = m.group(1)
                    if originals.get(eid) != c1:
                        res["violations"].append(["event-text-altered", dict(wit, id=eid, sent=(originals.get(eid) or "")[:200], got=c1[:200])])
                    if not set(PARAMS) <= set(params):
                        res["violations"].append(["event-params-missing", dict(wit, have=sorted(params))])
                    seen_in.setdefault(eid, set()).add(common.sha(body))
                    if outcomes.count("ok") > 1:
                        res["violations"].append(["batch-acknowledged-twice", dict(wit, id=eid)])
            for eid, bs in seen_in.items():
                if len(bs) > 1:
                    res["violations"].append(["event-uploaded-in-two-different-batches", dict(wit, id=eid)])
            # no-loss where the statement promises it: with no upload failures every event that fits a batch is delivered
            if fp == "all-ok":
                for eid, msg in originals.items():
                    too_big = len(msg.encode()) > 60000
                    if eid not in seen_in and not too_big:
                        res["violations"].append(["event-lost-without-any-upload-failure", dict(wit, id=eid, size=len(msg.encode()))])
                    if eid in seen_in and len(msg.encode()) > 66000:
                        res["violations"].append(["oversize-event-was-uploaded", dict(wit, id=eid)])
            retries = len(myposts) - len(batches)
            bump("posts", len(myposts)); bump("retries_of_same_batch", retries)
            if len(myposts) > 6 * max(1, len(batches)):
                res["violations"].append(["more-posts-than-retry-bound", wit])
            if len(batches) >= 2 or size_class in ("markup", "huge-one") or fp != "all-ok":
                res["nontrivial"].append(common.sha([size_class, fp, nfiles, len(batches) > 1]))
            bump("scenario:%s:%s" % (size_class, fp))
            if len(res["samples"]) < 2 and len(batches) > 1:
                res["samples"].append(wit)
        stuck = any(v[0].startswith("event-processing-did-not-terminate") for v in res["violations"])
        try:
            # a reader that spins without ever yielding keeps the (single-threaded, paused-clock) runtime busy: no RPC is answered any more
            for p in sh.call("panics", timeout=10 if stuck else 120)["panics"]:
                res["violations"].append(["panic:%s" % p.get("location"), p])
        except common.Inconclusive:
            if not stuck:
                raise
            res["counts"]["process_unresponsive_after_non_termination"] = 1
    finally:
        try:
            sh.close()
        except Exception:  # noqa
            pass
        ws.close(); imds.close()
    return res


def run(tier, rep):
    rep.coverage["rule"] = ("real EventReader (paused tokio clock, so the 15 s retry waits cost nothing) against mock WireServer/IMDS; per scenario 1-5 event files with 0-400 events whose text is drawn from a hostile alphabet "
                            "(<, >, &, quotes, ]]>, <![CDATA[, </Event>, literal entities, Param look-alikes, 2-4 byte characters, whitespace) each carrying a unique id, sizes around the 64KiB batch boundary and single events above it, "
                            "corrupt files, and upload fault patterns (2xx/500/503/reset, up to and beyond the 5-retry limit; acknowledgements whose response body is chunked or cut short). oracle: every POST body < 65536 bytes, parses with expat, each event's CDATA is a flat Param list whose Context1 "
                            "equals the original text, an id never appears in two different batches nor in a batch acknowledged twice, no loss without upload failures, oversize events dropped, processing ends and files are removed. "
                            "non-trivial = scenario with >= 2 batches, markup-heavy text, an oversize event or an upload fault; distinct by (size class, fault pattern, file count)")
    shards = 8 if tier == "quick" else 16
    args = [{"shard": i, "tier": tier, "scenarios": 25 if tier == "quick" else 400} for i in range(shards)]
    for res in sandbox.run_many("vf.props.c18", "worker", args, workers=shards, timeout=6000):
        rep.merge_worker(res)
    rep.assumptions += ["event text is free of control characters (as the statement says)", "re-sending the identical batch after a failed upload is the documented retry and is allowed"]

"""C02 - RBAC decision equals the declared rule semantics, deterministically."""
import json
from .. import common, gen_rbac, pool
from ..oracles import rbac

BATCH = 1500


def classify_ref(doc, url):
    privs = (doc.get("rules") or {}).get("privileges") or []
    if any(p.get("path", "") != p.get("path", "").lower() for p in privs):
        return "rule-path-uppercase"
    return "other"


def run(tier, rep):
    n_cases = 30000 if tier == "quick" else 600000
    rep.coverage["rule"] = ("cases = (rule document, caller claims, URL) drawn from tiny alphabets (names a,b,c,A; paths /a,/A,/a/b,..; "
                            "query keys k,K,kk,q) incl. dangling names, duplicate names, missing sections, mixed-case text; each case is decided by the real "
                            "from_authorization_item+is_allowed (direct route and via set_imds_rules/get_imds_rules), compared with a Python reference "
                            "written from the statement, and re-decided under 5 metamorphic transforms (permute lists, re-serialise, rule text case, URL case, "
                            "mode word case). non-trivial = mode not disabled and >=1 privilege path-matches the URL; distinct by hash of (doc, claims, url)")
    r = common.rng("c02", tier)
    cases = []
    for i in range(n_cases):
        doc = gen_rbac.gen_doc(r)
        claims = gen_rbac.gen_claims(r)
        # bias: make identities likely to match by reusing identity attributes
        idents = (doc.get("rules") or {}).get("identities") or []
        if idents and r.random() < 0.5:
            it = r.choice(idents)
            if "userName" in it: claims["userName"] = it["userName"]
            if "groupName" in it and r.random() < 0.8: claims["userGroups"] = list(set(claims["userGroups"] + [it["groupName"]]))
            if "processName" in it: claims["processName"] = it["processName"]
            if "exePath" in it: claims["processFullPath"] = it["exePath"]
        url = gen_rbac.gen_url(r)
        cases.append((doc, claims, url))
    # flat list of RPC items: original (direct), original (state route), transforms
    items, index = [], []   # index: (case_no, label)
    for ci, (doc, claims, url) in enumerate(cases):
        items.append({"item": doc, "claims": claims, "url": url}); index.append((ci, "orig"))
        if ci % 4 == 0:
            items.append({"item": doc, "claims": claims, "url": url, "route": "state"}); index.append((ci, "state"))
        if ci % 4 == 1:
            # the way the host delivers it: inside a status document (KeyStatus deserialisation, get_imds_rules(), set_imds_rules())
            items.append({"item": doc, "claims": claims, "url": url, "route": "keystatus"}); index.append((ci, "state"))
        for label, d, c, u in gen_rbac.transforms(r, doc, claims, url):
            items.append({"item": d, "claims": c, "url": u}); index.append((ci, label))
    batches = [items[i:i + BATCH] for i in range(0, len(items), BATCH)]
    p = pool.ShimPool(n=12 if tier == "thorough" else 8)
    try:
        results = p.map("rbac_batch", batches)
        panics = p.panics()
    finally:
        p.close()
    flat = [x for b in results for x in b]
    if len(flat) != len(items):
        raise common.Inconclusive("result count mismatch")
    orig = {}
    outcome_counts = {}
    for (ci, label), res, item in zip(index, flat, items):
        rep.evaluated()
        doc, claims, url = cases[ci]
        if res.get("panic"):
            rep.violation("panic-in-decision", {"case": item, "label": label})
            continue
        if "err" in res:
            rep.count("rejected_inputs")
            continue
        got = res["allowed"]
        if label == "orig":
            orig[ci] = got
            exp, info = rbac.decide(doc, claims, url)
            outcome_counts[info] = outcome_counts.get(info, 0) + 1
            if exp is None:
                rep.count("ambiguous_excluded_from_reference")
            elif exp != got:
                rep.violation("reference-mismatch:%s" % classify_ref(doc, url),
                              {"doc": doc, "claims": claims, "url": url, "expected": exp, "got": got, "why": info})
            if (doc.get("mode") or "").lower() != "disabled" and rbac.any_privilege_path_matches(doc, url):
                rep.nontrivial(common.sha([doc, claims, url]))
                rep.sample({"doc": doc, "claims": claims, "url": url, "decision": got, "reference": exp, "branch": info})
            if rbac.has_duplicate_names(doc): rep.count("docs_with_duplicate_names")
            if any(p.get("path", "") != p.get("path", "").lower() for p in (doc.get("rules") or {}).get("privileges") or []):
                rep.count("docs_with_uppercase_rule_path")
        else:
            if ci not in orig:
                continue
            if got != orig[ci]:
                dup = ":duplicate-names" if rbac.has_duplicate_names(doc) else ""
                sig = "route-differs" if label == "state" else "metamorphic:%s%s" % (label, dup)
                rep.violation(sig, {"doc": doc, "claims": claims, "url": url, "variant": item, "original": orig[ci], "variant_decision": got})
            rep.count("metamorphic_checks")
    rep.coverage["reference_branches"] = outcome_counts
    for pn in panics:
        rep.violation("panic:%s" % pn.get("location"), pn)
    if tier == "thorough":
        from .. import miri
        mr = common.rng("c02-miri")
        corpus = []
        for (doc, claims, url) in cases:
            if len(corpus) >= 150:
                break
            d, _ = rbac.decide(doc, claims, url)
            if d is not None and (doc.get("mode") or "").lower() != "disabled" and mr.random() < 0.2:
                corpus.append({"item": doc, "claims": claims, "url": url, "expected": d})
        miri.run({"rbac": corpus}, [], rep)
    rep.assumptions += ["reference semantics are the Python transcription of the statement in vf/oracles/rbac.py",
                        "URLs with duplicate query keys are judged only when 'first' and 'any' readings agree",
                        "documents with duplicate names are judged by the metamorphic oracle only"]

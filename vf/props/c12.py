"""C12 - The latched key value never leaves the key store."""
import base64, json, os, re, shutil, stat, time
from .. import common, sandbox, wsmock, realagent, mockhost, rawhttp, standin, shim as shimmod, gen_rbac, hostdocs

NEEDS_AGENT = True
KEY_DIR = "/var/lib/azure-proxy-agent/keys"


def needles(secret_hex):
    out = set()
    low, up = secret_hex.lower().encode(), secret_hex.upper().encode()
    for s in (low, up):
        for i in range(0, len(s) - 15):
            out.add(s[i:i + 16])
    try:
        raw = bytes.fromhex(secret_hex)
    except ValueError:
        return out       # a key value that is not hex (malformed key document): only its text can leak
    out.add(raw)
    for i in range(0, len(raw), 16):
        if len(raw[i:i + 16]) == 16:
            out.add(raw[i:i + 16])
    b64 = base64.b64encode(raw)
    out.add(b64.rstrip(b"="))
    out.add(base64.urlsafe_b64encode(raw).rstrip(b"="))
    return out


class Taint:
    def __init__(self):
        self.secrets = {}   # guid -> hex
        self.bytes_scanned = {}
        self.hits = []

    def scan(self, sink, name, data, allowed=False):
        self.bytes_scanned[sink] = self.bytes_scanned.get(sink, 0) + len(data)
        if allowed:
            return
        for guid, sec in self.secrets.items():
            for n in needles(sec):
                i = data.find(n)
                if i >= 0:
                    self.hits.append({"sink": sink, "where": name, "guid": guid, "needle_kind": "raw" if len(n) in (16, 32) and not n.isalnum() else "text",
                                      "context": data[max(0, i - 80):i + 40].decode("latin-1")})
                    break

    def scan_tree(self, root, sink, skip_dirs=()):
        for dp, dn, fn in os.walk(root):
            if any(os.path.abspath(dp).startswith(os.path.abspath(s)) for s in skip_dirs):
                continue
            for f in fn:
                p = os.path.join(dp, f)
                if f.startswith("strace.out"):
                    continue        # the monitor's own syscall trace (it records the data written into the key file)
                try:
                    if os.path.islink(p) or not os.path.isfile(p):
                        continue
                    with open(p, "rb") as fh:
                        self.scan(sink, p, fh.read())
                except OSError:
                    pass


def proxied(vdir, vid, target="/metadata/instance?a=1", dest=("169.254.169.254", 80), headers=(), method="GET"):
    c = rawhttp.Conn("127.0.0.1", 3080, connect=False, timeout=4)
    standin.inject(vdir, c.src_port, 0, os.getpid(), 1, dest[0], dest[1])
    c.connect()
    c.send(rawhttp.build_request(method, target, [("x-vf-id", vid)] + list(headers)))
    r = c.read_response(method.encode())
    c.close()
    return r


def provision_query(tick="0", notify=False, metadata=True):
    c = rawhttp.Conn("127.0.0.1", 3080, timeout=4)
    hs = [("x-ms-azure-time_tick", tick)]
    if metadata:
        hs.append(("Metadata", "True"))
    if notify:
        hs.append(("x-ms-azure-notify", "1"))
    c.send(rawhttp.build_request("GET", "/provision", hs))
    r = c.read_response()
    c.close()
    return r


def real_history(args, scratch):
    """real binary in service mode: latch, proxied + /provision traffic, host faults, rotation, disable/enable, restart"""
    res = {"evaluations": 0, "nontrivial": [], "samples": [], "counts": {}, "violations": []}
    r = common.rng("c12", args["shard"], args["tier"])
    taint = Taint()
    vdir = scratch + "/standin"
    imds = mockhost.MockHost("169.254.169.254", 80, lambda req: hostdocs.own_calls_handler("imds", req) or {"status": 200, "body": b"{}"}, name="imds")
    ws = wsmock.WsMock(key_dir=KEY_DIR, rng=r)
    ws.key_bits = [256, 512, 128, 384][args["shard"] % 4]      # the key is as long as the host makes it
    ws.version = "2.0"
    ws.rules = {"wireserver": {"defaultAccess": "allow", "mode": "audit", "id": "w1"}, "imds": {"defaultAccess": "allow", "mode": "audit", "id": "i1"}}
    script = args["script"]
    keydoc_steps = [0]
    events = []
    client_bytes = []
    if args.get("preexisting_dir"):
        # the key folder already exists with lax permissions (an earlier start died between mkdir and chmod, a package script, a restore ...)
        os.makedirs(KEY_DIR, exist_ok=True)
        os.chmod(KEY_DIR, 0o755)
        os.chmod(os.path.dirname(KEY_DIR), 0o755)
    # write-family syscalls are traced with their data (-s): a key needle in the data of a write to anything but a file inside the key
    # directory is a leak even if the file is gone again afterwards (a temp file elsewhere, a pipe, a socket to a client)
    trace_opts = ["-s", "600", "-e", "trace=mkdir,chown,fchown,fchownat,lchown,chmod,fchmod,fchmodat,openat,rename,renameat,renameat2,creat,write,writev,pwrite64,sendto,close,socket,accept4,connect,dup,dup2,dup3"] if args.get("strace") else None
    if trace_opts and args.get("chown_fault"):
        # fault: changing the owner of the key folder fails (agent without CAP_CHOWN, root-squashed or FUSE-backed folder): the folder
        # must still be mode 0700 before the first key file appears in it
        trace_opts += ["-e", "inject=chown,fchown,fchownat,lchown:error=EPERM"]
    elif trace_opts and args.get("chown_delay"):
        # fault: changing the owner of the key folder takes 1.5 s (slow or remote file system): whatever the agent does meanwhile, no key
        # file may appear in the folder before it has been restricted
        trace_opts += ["-e", "inject=chown,fchown,fchownat,lchown:delay_enter=1500000"]
    agent = realagent.RealAgent(scratch, tag="a0", vdir=vdir, poll_s=1, strace=trace_opts, worker_threads=2)
    agents = [agent]

    def wait(cond, t=8):
        t0 = time.time()
        while time.time() - t0 < t:
            if cond():
                return True
            time.sleep(0.05)
        return False

    def latched_sync():
        for g in ws.latched_history:
            taint.secrets[g] = ws.issued[g]
        if ws.latched and ws.latched in ws.issued:
            taint.secrets[ws.latched] = ws.issued[ws.latched]
        for g, sec in ws.delivered_in_malformed_document.items():
            taint.secrets[g] = sec
    try:
        wait(lambda: ws.latched is not None, 10)
        latched_sync()
        n = 0
        for step in script:
            n += 1
            events.append(step)
            if step == "traffic":
                for k in range(4):
                    try:
                        rr = proxied(vdir, "c12-%d-%d-%d" % (args["shard"], n, k), target=r.choice(["/metadata/instance?a=1", "/x/../y", "/a?k=v"]), headers=[("x-h", "é".encode())] if k == 3 else [])
                        client_bytes.append(rr.raw_head + b"\r\n\r\n" + rr.body)
                    except Exception as e:  # noqa
                        client_bytes.append(repr(e).encode())
            elif step == "provision":
                for notify in (False, True):
                    for tick in ("0", "99999999999999999999999999", "abc"):
                        for md in (True, False):
                            try:
                                rr = provision_query(tick, notify, md)
                                client_bytes.append(rr.raw_head + b"\r\n\r\n" + rr.body)
                            except Exception as e:  # noqa
                                client_bytes.append(repr(e).encode())
            elif step == "fault-status":
                ws.fault("status", r.choice([{"kind": "status", "code": 500, "body": "boom"}, {"kind": "body", "body": "{bad json"}, {"kind": "body", "body": '{"version":"2.0"}'}]))
                time.sleep(1.2)
            elif step == "rotate":
                old = ws.latched
                k = ws.new_key(); ws.latched = k["guid"]     # host latched a key the guest never saw -> guest must acquire a new one
                ws.issued.pop(k["guid"])                     # never delivered to the guest, not a secret of interest
                wait(lambda: ws.latched in ws.issued and ws.latched != old, 6)
                latched_sync()
            elif step == "fault-acquire":
                ws.fault("acquire", r.choice([{"kind": "status", "code": 500}, {"kind": "body", "body": '{"authorizationScheme":"Azure-HMAC-SHA256","guid":"not-a-key"}'}]))
                ws.latched = None
                wait(lambda: ws.latched is not None, 8)
                latched_sync()
            elif step == "fault-keydoc":
                # a malformed key response that nevertheless carries a secret the host issued ("malformed key responses" in the
                # quantifier): the guest cannot use it, and must not spread it either
                # the variants rotate with the history number, so that one run of the check covers all of them
                kd = args["shard"] + keydoc_steps[0]
                keydoc_steps[0] += 1
                ws.fault("acquire", {"kind": "mangled-key-document", "how": ["wrong-type", "missing-member", "truncated", "trailing", "extra-member"][kd % 5]})
                ws.fault("acquire", {"kind": "mangled-key-document", "how": ["non-hex-key", "odd-length-key", "status-201", "status-202", "status-206", "status-203"][kd % 6]})
                ws.fault("acquire", {"kind": "mangled-key-document", "how": ["abs-guid", "dot-guid", "odd-length-key", "non-hex-key", "empty-guid", "guid-with-path"][kd % 6]})
                ws.latched = None
                wait(lambda: ws.latched is not None, 15)
                latched_sync()
            elif step == "fault-attest":
                ws.fault("attest", {"kind": "status", "code": r.choice([500, 403]), "body": "attest failed"})
                ws.latched = None
                wait(lambda: ws.latched is not None, 8)
                latched_sync()
            elif step == "disable-enable":
                ws.enabled = False
                time.sleep(1.3)
                ws.enabled = True
                time.sleep(1.3)
                latched_sync()
            elif step == "restart":
                agents[-1].kill()
                agents.append(realagent.RealAgent(scratch, tag="a%d" % len(agents), vdir=vdir, poll_s=1, worker_threads=2))
                wait(lambda: ws.count("status") > 0, 5)
                time.sleep(1.2)
            latched_sync()
        time.sleep(0.5)
        latched_sync()
        # ---- scan every place a user can see
        for a in agents:
            a.kill()
            taint.scan("stdout", a.stdout_path, a.stdout())
            taint.scan("stderr", a.stderr_path, a.stderr())
        taint.scan_tree("/var/log", "log+event+status files")
        taint.scan_tree("/var/lib", "provision/other files under /var/lib", skip_dirs=[KEY_DIR])
        taint.scan("serial console", scratch + "/console", open(scratch + "/console", "rb").read())
        for b in client_bytes:
            taint.scan("bytes returned to local clients", "client", b)
        for m in (imds, ws.mock):
            with m.lock:
                for cid, raw in m.conn_raw.items():
                    taint.scan("upstream request bytes", "%s#%d" % (m.name, cid), bytes(raw))
        # files with a needle outside the key directory anywhere in the scratch root (temp files etc.)
        taint.scan_tree(scratch, "scratch root", skip_dirs=[])
        res["evaluations"] += 1
        for h in taint.hits:
            res["violations"].append(["latched-key-visible-in:%s" % h["sink"], dict(h, script=script)])
        # key directory restriction
        try:
            st = os.stat(KEY_DIR)
            if stat.S_IMODE(st.st_mode) != 0o700 or st.st_uid != 0:
                res["violations"].append(["key-directory-not-root-only", {"mode": oct(stat.S_IMODE(st.st_mode)), "uid": st.st_uid}])
        except OSError:
            res["violations"].append(["key-directory-missing", {}])
        if args.get("strace"):
            restricted = False
            merged = common.merge_strace(agents[0].trace_path)
            # --- write monitor
            import re as _re
            fdpath = {}
            text_needles = set()
            for sec in taint.secrets.values():
                for nd in needles(sec):
                    if nd.isalnum() and len(nd) == 16:
                        text_needles.add(nd.decode())
            writes_seen = 0
            for line in merged:
                m = _re.match(r"^\s*(\d+)\s+(\w+)\((.*)$", line)
                if not m:
                    continue
                sc, rest = m.group(2), m.group(3)
                if sc in ("openat", "creat"):
                    pm = _re.search(r'"([^"]*)"', rest); rm = _re.search(r"=\s*(\d+)\s*$", rest)
                    if pm and rm:
                        fdpath[int(rm.group(1))] = pm.group(1)
                elif sc in ("socket", "accept4"):
                    rm = _re.search(r"=\s*(\d+)\s*$", rest)
                    if rm:
                        fdpath[int(rm.group(1))] = "<socket>"
                elif sc == "close":
                    fm = _re.match(r"(\d+)\)", rest)
                    if fm:
                        fdpath.pop(int(fm.group(1)), None)
                elif sc in ("write", "writev", "pwrite64", "sendto"):
                    fm = _re.match(r"(\d+),", rest)
                    if not fm:
                        continue
                    writes_seen += 1
                    path = fdpath.get(int(fm.group(1)), "<fd %s>" % fm.group(1))
                    if path.startswith(KEY_DIR + "/"):
                        continue
                    hit = next((nd for nd in text_needles if nd in rest or nd.upper() in rest), None)
                    if hit:
                        res["violations"].append(["key-written-outside-the-key-directory:%s" % ("socket" if path == "<socket>" else "file"), {"path": path, "syscall": line.strip()[:400], "script": script}])
                        break
            res["counts"]["write_syscalls_scanned"] = res["counts"].get("write_syscalls_scanned", 0) + writes_seen
            dirfds = set()      # descriptors that refer to the key directory itself
            for line in merged:
                m = _re.match(r"^\s*(\d+)\s+(\w+)\((.*)$", line)
                sc, rest = (m.group(2), m.group(3)) if m else ("", "")
                ok = _re.search(r"=\s*0\s*$", line) is not None
                # whichever call restricts it: by path (chmod/fchmodat, mkdir with a mode that grants nothing to group/other) or through a
                # descriptor opened on the directory (fchmod)
                if sc in ("chmod", "fchmodat") and ('"%s"' % KEY_DIR in line or '"%s/"' % KEY_DIR in line) and _re.search(r"\b0700\b", line) and ok:
                    restricted = True
                if sc in ("mkdir", "mkdirat") and ('"%s"' % KEY_DIR in line or '"%s/"' % KEY_DIR in line) and _re.search(r"\b0700\)", line) and ok:
                    restricted = True       # created with no access for group/other (a umask can only take more away)
                if sc == "openat" and ('"%s"' % KEY_DIR in rest or '"%s/"' % KEY_DIR in rest):
                    rm = _re.search(r"=\s*(\d+)\s*$", rest)
                    if rm:
                        dirfds.add(int(rm.group(1)))
                if sc == "close":
                    fm = _re.match(r"(\d+)\)", rest)
                    if fm:
                        dirfds.discard(int(fm.group(1)))
                if sc == "fchmod" and ok:
                    fm = _re.match(r"(\d+),\s*(\d+)", rest)
                    if fm and int(fm.group(1)) in dirfds and fm.group(2) == "0700":
                        restricted = True
                if ("openat(" in line or "creat(" in line) and KEY_DIR + "/" in line and "O_CREAT" in line:
                    res["counts"]["key_file_creations_seen"] = res["counts"].get("key_file_creations_seen", 0) + 1
                    if not restricted:
                        res["violations"].append(["key-file-created-before-directory-restricted", {"line": line.strip()}])
                    break
            res["counts"]["startup_order_checked"] = res["counts"].get("startup_order_checked", 0) + 1
            if args.get("chown_fault"):
                res["counts"]["chown_calls_failed_by_injection"] = res["counts"].get("chown_calls_failed_by_injection", 0) + sum(1 for line in merged if "chown" in line and "EPERM" in line and "INJECTED" in line)
        res["counts"]["secrets_latched"] = len(taint.secrets)
        res["counts"]["needles_searched"] = sum(len(needles(s)) for s in taint.secrets.values())
        res["counts"]["bytes_scanned"] = dict(taint.bytes_scanned)
        if taint.secrets and any(s.startswith("fault") for s in script):
            res["nontrivial"].append(common.sha(script))
        if not taint.secrets:
            res.setdefault("inconclusive", []).append("no key was latched in history %s" % script)
        res["samples"].append({"script": script, "latched_keys": len(taint.secrets), "bytes_scanned": taint.bytes_scanned})
        for a in agents:
            for line in a.stderr().decode(errors="replace").splitlines():
                if "panicked at" in line:
                    res["violations"].append(["panic-in-agent", {"line": line}])
    finally:
        for a in agents:
            a.kill()
        ws.close(); imds.close()
    return res


def pipeline(args, scratch):
    """shim-hosted run with the telemetry pipeline and status task on short intervals, so that events, status.json and uploads exist within seconds"""
    res = {"evaluations": 0, "nontrivial": [], "samples": [], "counts": {}, "violations": []}
    r = common.rng("c12p", args["shard"], args["tier"])
    taint = Taint()
    vdir = scratch + "/standin"
    os.makedirs(vdir + "/audit", exist_ok=True)
    imds = mockhost.MockHost("169.254.169.254", 80, lambda req: hostdocs.own_calls_handler("imds", req) or {"status": 200, "body": b"{}"}, name="imds")
    ws = wsmock.WsMock(key_dir=KEY_DIR, rng=r)
    ws.version = "1.0"; ws.state_v1 = "WireserverAndImds"
    sh = shimmod.Shim(scratch + "/shim", runtime="multi:4", verif_dir=vdir, env={"GPA_VERIF_DELAY": "get_key:200:300,actor_key_keeper:500:3000", "GPA_VERIF_DELAY_SEED": str(args["shard"] + 3)})
    client_bytes = []
    try:
        sh.call("init", log_dir="/var/log/azure-proxy-agent", log_level="Trace")
        sh.call("proxy_start", port=3080)
        sh.call("event_logger_start", dir="/var/log/azure-proxy-agent/events", interval_ms=30, max_files=50)
        sh.call("status_task_start", dir="/var/log/azure-proxy-agent", interval_ms=50)
        sh.call("key_keeper_start", base_url="http://168.63.129.16:80/", key_dir=KEY_DIR, log_dir="/var/log/azure-proxy-agent", interval_ms=50)
        sh.call("event_reader_start", dir="/var/log/azure-proxy-agent/events", interval_ms=60, delay_start=False)
        t0 = time.time()
        while ws.latched is None and time.time() - t0 < 10:
            time.sleep(0.05)
        # the third subsystem reports ready: provisioning completes with every later key-latch report and its state files are written (by
        # default into the key folder, which has to stay root-only all the same)
        sh.call("prov", what="redirector_ready")

        def key_dir_mode(when):
            try:
                st = os.stat(KEY_DIR)
            except OSError:
                return
            res["counts"]["key_directory_mode_checks"] = res["counts"].get("key_directory_mode_checks", 0) + 1
            if stat.S_IMODE(st.st_mode) != 0o700 or st.st_uid != 0:
                if not any(v[0] == "key-directory-not-root-only" for v in res["violations"]):
                    res["violations"].append(["key-directory-not-root-only", {"mode": oct(stat.S_IMODE(st.st_mode)), "uid": st.st_uid, "when": when,
                                                                            "files": sorted(os.listdir(KEY_DIR))}])
        for round_ in range(args["rounds"]):
            key_dir_mode("round %d (provisioning completed, state files written)" % round_)
            for g in ws.latched_history:
                taint.secrets[g] = ws.issued[g]
            for k in range(5):
                try:
                    rr = proxied(vdir, "c12p-%d-%d" % (round_, k), target="/metadata/instance?r=%d" % k)
                    client_bytes.append(rr.raw_head + rr.body)
                    rr = provision_query("0", k % 2 == 0)
                    client_bytes.append(rr.raw_head + rr.body)
                except Exception as e:  # noqa
                    client_bytes.append(repr(e).encode())
            ev = r.choice(["rotate", "fault-status", "fault-attest", "v2", "none"])
            if ev == "rotate":
                old = ws.latched
                k = ws.new_key(); ws.latched = k["guid"]; ws.issued.pop(k["guid"])
                t1 = time.time()
                while (ws.latched not in ws.issued or ws.latched == old) and time.time() - t1 < 5:
                    time.sleep(0.03)
            elif ev == "fault-status":
                ws.fault("status", {"kind": "body", "body": "<html>" + "é" * 600 + "</html>", "ctype": "text/html"})
            elif ev == "fault-attest":
                ws.fault("attest", {"kind": "status", "code": 500, "body": "x" * 2000}); ws.latched = None
                t1 = time.time()
                while ws.latched is None and time.time() - t1 < 5:
                    time.sleep(0.03)
            elif ev == "v2":
                ws.version = "2.0"; ws.enabled = True
                ws.rules = {"wireserver": gen_rbac.gen_doc(r, dup_ok=False, mode="audit"), "imds": gen_rbac.gen_doc(r, dup_ok=False, mode="audit")}
                ws.rules["wireserver"]["id"] = "w-%d" % round_; ws.rules["imds"]["id"] = "i-%d" % round_
            time.sleep(0.25)
        # the key folder vanishes while the service runs (clean-up script, restore), then the host wants a new key latched: wherever a key file
        # appears after that, it is in a root-only folder
        if args["shard"] % 2 == 0:
            shutil.rmtree(KEY_DIR, ignore_errors=True)
            k = ws.new_key(); ws.latched = k["guid"]; ws.issued.pop(k["guid"])
            time.sleep(1.0)
            for g in ws.latched_history:
                taint.secrets[g] = ws.issued[g]
            key_dir_mode("after the key folder was removed under the running service and a new key was requested")
            res["counts"]["key_folder_vanished_histories"] = 1
        # clients that reset the connection right after (or while) sending a request: the handler is cancelled at arbitrary points
        import socket as _s, struct as _st
        aborted = 0
        for k in range(args.get("aborts", 0)):
            try:
                c = rawhttp.Conn("127.0.0.1", 3080, connect=False, timeout=2)
                standin.inject(vdir, c.src_port, 0, os.getpid(), 1, "169.254.169.254", 80)
                c.connect()
                raw = rawhttp.build_request("GET", "/metadata/instance?abort=%d" % k, [("x-vf-id", "abort-%d" % k)])
                cut = len(raw) if k % 3 else r.randrange(1, len(raw))
                c.s.sendall(raw[:cut])
                if k % 2:
                    # anywhere in the handler's life time (the actors take 0-3 ms per message with the delay points on)
                    time.sleep(r.random() * r.choice([0.0006, 0.002, 0.004, 0.006]))
                c.close(abort=True)
                aborted += 1
            except OSError:
                pass
        res["counts"]["pipeline_aborted_requests"] = aborted
        for g in ws.latched_history:
            taint.secrets[g] = ws.issued[g]
        time.sleep(0.4)
        telemetry_posts = [u for u in ws.mock.snapshot() if u.target.lower().startswith(b"/machine/?comp=telemetrydata")]
        for u in telemetry_posts:
            taint.scan("telemetry bodies uploaded to the host", "telemetry", u.body)
        sh.close()
        taint.scan("stdout", sh.stdout_path, open(sh.stdout_path, "rb").read())
        taint.scan("stderr", sh.stderr_path, open(sh.stderr_path, "rb").read())
        taint.scan_tree("/var/log", "log+event+status files")
        taint.scan_tree("/var/lib", "provision/other files under /var/lib", skip_dirs=[KEY_DIR])
        taint.scan("serial console", scratch + "/console", open(scratch + "/console", "rb").read())
        for b in client_bytes:
            taint.scan("bytes returned to local clients", "client", b)
        for m in (imds, ws.mock):
            with m.lock:
                for cid, raw in m.conn_raw.items():
                    taint.scan("upstream request bytes", "%s#%d" % (m.name, cid), bytes(raw))
        res["evaluations"] += 1
        for h in taint.hits:
            res["violations"].append(["latched-key-visible-in:%s" % h["sink"], h])
        res["counts"]["pipeline_telemetry_posts"] = len(telemetry_posts)
        res["counts"]["pipeline_status_json_present"] = int(os.path.exists("/var/log/azure-proxy-agent/status.json"))
        res["counts"]["pipeline_rule_dumps"] = len([f for f in os.listdir("/var/log/azure-proxy-agent") if f.startswith("AuthorizationRules_")])
        res["counts"]["secrets_latched"] = len(taint.secrets)
        res["counts"]["bytes_scanned"] = dict(taint.bytes_scanned)
        if taint.secrets:
            res["nontrivial"].append("pipeline-%d" % args["shard"])
        if not telemetry_posts or not taint.secrets:
            res.setdefault("inconclusive", []).append("pipeline produced no telemetry upload or latched no key")
    finally:
        try:
            sh.close()
        except Exception:
            pass
        ws.close(); imds.close()
    return res


STEPS = ["traffic", "provision", "fault-status", "rotate", "fault-acquire", "fault-keydoc", "fault-attest", "disable-enable", "restart"]


def run(tier, rep):
    rep.coverage["rule"] = ("taint search: secrets = every key the mock host latched (attestation accepted) and every key it delivered inside a malformed key document (wrong member type, missing/extra member, truncated, trailing bytes, key value that is not hex / of odd length, a well-formed document under status 201/202/203/206, a key id that is empty or contains a path); needles = the 64 hex digits in either case, every 16-digit window, the raw 32 bytes and halves, base64; "
                            "haystack = all files under the log/event/status/provision locations and the whole scratch root, stdout, stderr, the captured /dev/console, every byte returned to local clients "
                            "(proxied responses, /provision answers, refusals), telemetry bodies at the mock and upstream request bytes; only files inside the key directory may contain a needle. histories: real binary "
                            "(latch, traffic, /provision queries, status/acquire/attest faults, rotation, disable/enable, restart) and a shim-hosted pipeline with logger/reader/status task on short intervals. plus "
                            "strace of start-up: chmod 0700 of the key directory precedes the first O_CREAT below it, also when every chown is made to fail with EPERM or to take 1.5 s (strace fault injection). non-trivial = history with a latched key and a fault; distinct by script")
    r = common.rng("c12", tier)
    n = 6 if tier == "quick" else 60
    args = []
    for i in range(n):
        script = ["traffic", "provision"] + [r.choice(STEPS) for _ in range(3 if tier == "quick" else 6)] + ["traffic"]
        if not any(s.startswith("fault") for s in script):
            script.insert(2, "fault-attest")
        if "fault-keydoc" not in script:
            script[2:2] = ["fault-keydoc", "provision"]
        args.append({"shard": i, "tier": tier, "script": script, "strace": i % 2 == 0, "preexisting_dir": i % 3 == 1, "chown_fault": i % 4 == 0, "chown_delay": i % 4 == 2})
    for res in sandbox.run_many("vf.props.c12", "real_history", args, workers=8, timeout=600 if tier == "quick" else 5400):
        rep.merge_worker(res)
    pargs = [{"shard": i, "tier": tier, "rounds": 8 if tier == "quick" else 40, "aborts": 3000 if tier == "quick" else 30000} for i in range(4 if tier == "quick" else 8)]
    for res in sandbox.run_many("vf.props.c12", "pipeline", pargs, workers=8, timeout=600 if tier == "quick" else 5400):
        rep.merge_worker(res)
    rep.assumptions += ["keys the mock host generated but never sent to the guest are not secrets of interest",
                        "process memory, core dumps and swap are not 'outputs' in the statement"]

"""C01 - Complete mediation: only attributed, authorized requests reach a metadata host."""
import os
from .. import common, sandbox, wproxy, rawhttp, gen_rbac, gen_http
from ..oracles import rbac

PATHS = ["/", "/a", "/a?k=v", "/a?k=w", "/a?K=V&q=w", "/a?q=", "/A/b", "/ab?k=v", "/a/b?k=v&q=w", "/b", "/machine?comp=goalstate", "/metadata/instance?api-version=2021-01-01",
         "/a/../b", "/..", "/a/..", "/..a", "/a..b/c", "/a/%2e%2e/b", "/a?x=..", "/a//b", "/provision/x", "/a/.../b",
         # the two uploads that are exempt from SIGNING are not exempt from the rules
         "/vmAgentLog", "/machine/?comp=telemetrydata", "/VMAGENTLOG", "/Machine/?Comp=TelemetryData"]
DESTS = ["wireserver", "hostga", "imds", "self", "other"]
ATTR = ["record", "record", "record", "none", "deadpid", "unknownuid", "nonutf8", "zombie"]
# "the client receives an error status (404/421/500/403) instead": the statement names the set, not which member goes with which reason
ERR = {403, 404, 421, 500}
# the agent marks every response it relays from a host with this header ("to let the client know it is through proxy agent"); the only
# evidence of relaying available when the destination is the agent's own listener (no mock sees those bytes)
RELAY_MARK = b"x-ms-azure-host-authorization"


def expected(case, docs, idents):
    """reference decision table from the statement -> set of acceptable client statuses, or 'FORWARD'"""
    if case["attr"] == "zombie":
        return None     # a caller that has exited and is not yet reaped (its socket lives on in another process): what the agent can still
                        # learn about it is not specified - the request must be answered and nothing may panic, the verdict is not judged
    path = case["target"].split("?", 1)[0]
    acceptable = set()
    if ".." in path:
        acceptable.add(404)
    if case["attr"] == "none":
        acceptable.add(421)
    if acceptable:
        return acceptable
    claims = case["claims"]
    dest = case["dest"]
    if dest == "self":
        return {403}
    if dest in ("wireserver", "hostga") and not claims["runAsElevated"]:
        return {403}
    doc = docs.get(dest)
    if doc is not None and case["attr"] == "nonutf8" and doc["mode"].lower() != "disabled":
        return None  # how a non-UTF-8 executable name compares with rule text is not specified
    if doc is not None:
        d, info = rbac.decide(doc, claims, case["target"])
        if d is None:
            return None  # ambiguous under stated leniency
        mode = doc["mode"].lower()
        if not d and mode == "enforce":
            return {403}
    return "FORWARD"


def worker(args, scratch):
    r = common.rng("c01", args["shard"], args["tier"])
    w = wproxy.World(scratch)
    res = {"evaluations": 0, "nontrivial": [], "samples": [], "counts": {}, "violations": [], "inconclusive": []}
    cnt = res["counts"]

    def bump(k, n=1):
        cnt[k] = cnt.get(k, 0) + n
    try:
        idents = [w.identity("root", "helper", ["--flag"]), w.identity("alice", "tool", ["x", "y"]),
                  w.identity("bob", "Tool", []), w.identity("gidzero", "python3", ["-c", "pass"])]
        bad = w.identity("alice", "bad\udcff\udcfename", ["z"])
        known_ids = {}
        zombie, zombies = [None], []
        pool = {}     # (dest, ident index) -> open keep-alive connection; survives policy changes on purpose
        for pol in range(args["policies"]):
            docs = {}
            for ep in ("wireserver", "hostga", "imds"):
                if r.random() < 0.75:
                    mode = r.choice(["disabled", "audit", "enforce", "enforce"])
                    docs[ep] = gen_rbac.gen_doc(r, dup_ok=False, mode=mode)
                    # make grants reachable: point some identity at a real caller
                    for it in (docs[ep].get("rules") or {}).get("identities") or []:
                        if r.random() < 0.6:
                            c = r.choice(idents).claims()
                            it.pop("userName", None); it.pop("processName", None); it.pop("exePath", None); it.pop("groupName", None)
                            pick = r.choice(["userName", "processName", "exePath", "groupName"])
                            it[pick] = {"userName": c["userName"], "processName": c["processName"], "exePath": c["processFullPath"],
                                        "groupName": (c["userGroups"] or ["none"])[0]}[pick]
                            if pick == "groupName" and r.random() < 0.3:
                                it[pick] = "g"      # a group that exists (its gid is the uid of the caller 'gidzero') and has no members

                w.rules(ep, docs.get(ep))
            if r.random() < 0.5:
                w.key("11111111-2222-3333-4444-%012d" % pol, "%064x" % r.getrandbits(256))
            for n in range(args["requests"]):
                vid = "c01-%d-%d-%d" % (args["shard"], pol, n)
                dest = r.choice(DESTS)
                attr = r.choice(ATTR)
                ident = r.choice(idents)
                target = r.choice(PATHS)
                method = r.choice(gen_http.METHODS)
                body = gen_http.body(r, 600) if method in ("POST", "PUT", "PATCH") else b""
                hdrs = gen_http.headers(r) + [("x-vf-id", vid)]
                case = {"id": vid, "dest": dest, "attr": attr, "method": method, "target": target, "user": ident.user}
                claims = dict(ident.claims())
                kw = {}
                if attr == "none":
                    conn = w.open(record=False)
                elif attr == "deadpid":
                    claims.update(processName="", processFullPath="", processCmdLine="undefined")
                    conn = w.open(dest, ident, pid=4000000)
                elif attr == "zombie":
                    import subprocess as _sp
                    if zombie[0] is None or r.random() < 0.2:
                        z = _sp.Popen([wproxy.HELPER_BIN], stdin=_sp.PIPE, stdout=_sp.DEVNULL, user=ident.uid, group=ident.gid, extra_groups=[])
                        z.kill()                     # exits; never waited for: stays a zombie for as long as this worker holds the handle
                        zombies.append(z); zombie[0] = z.pid
                        import time as _t; _t.sleep(0.02)
                    claims.update(processName="", processFullPath="", processCmdLine="")
                    conn = w.open(dest, ident, pid=zombie[0])
                    bump("requests_attributed_to_a_zombie_process")
                elif attr == "unknownuid":
                    claims.update(userName="undefined", userGroups=[], userId=54321, runAsElevated=False)
                    conn = w.open(dest, ident, uid=54321)
                elif attr == "nonutf8":
                    claims = dict(bad.claims())
                    case["user"] = bad.user
                    conn = w.open(dest, bad)
                else:
                    key = (dest, ident.user)
                    conn = pool.pop(key, None) if r.random() < 0.6 else None
                    if conn is not None:
                        case["reused_connection"] = True
                        cnt["requests_on_reused_keepalive_connection"] = cnt.get("requests_on_reused_keepalive_connection", 0) + 1
                    else:
                        conn = w.open(dest, ident)
                    kw["pool_key"] = key
                case["claims"] = claims
                exp = expected(case, docs, idents)
                raw = rawhttp.build_request(method, target, hdrs, body)
                try:
                    conn.send(raw)
                    resp = conn.read_response(method.encode())
                    status = resp.status
                except Exception as e:  # noqa
                    status = "error:%r" % (e,)
                    resp = None
                if resp is None and case.get("reused_connection") and not common.is_timeout(status) and not w.upstream(vid):
                    # the kept-alive connection had been closed by the agent (it may close after any answer, e.g. a refusal with
                    # 'Connection: close'): the same request on a fresh connection of the same caller
                    bump("kept_alive_connection_found_closed")
                    conn.close()
                    conn = w.open(dest, ident)
                    try:
                        conn.send(raw)
                        resp = conn.read_response(method.encode())
                        status = resp.status
                    except Exception as e:  # noqa
                        status = "error:%r" % (e,)
                if kw.get("pool_key") and resp is not None and r.random() < 0.7 and kw["pool_key"] not in pool:
                    pool[kw["pool_key"]] = conn     # keep it open for a later request (possibly under another policy)
                else:
                    conn.close()
                if common.is_timeout(status):
                    if not res["inconclusive"]:
                        res["inconclusive"].append("client socket watchdog (60 s) fired while waiting for the proxy; not a verdict")
                    continue
                res["evaluations"] += 1
                ups = w.upstream(vid)
                relayed = len(ups) > 0
                witness = {"case": case, "docs": docs, "status": status, "relayed_to": [u.host for u in ups], "expected": sorted(exp) if isinstance(exp, set) else exp}
                if exp is None:
                    bump("ambiguous_excluded")
                    continue
                if exp == "FORWARD":
                    known_ids[vid] = dest
                    bump("expected_forward")
                    if not relayed:
                        # "relayed only if ...": a request the reference would authorize may still be refused (stricter validation
                        # is not excluded by the statement) - as long as it IS a refusal: error status, nothing upstream
                        bump("authorized_by_reference_but_refused")
                        if status not in ERR and not (isinstance(status, int) and status >= 500):
                            res["violations"].append(["not-relayed-and-no-error-status", witness])
                    elif ups[0].host != dest or len(ups) != 1:
                        res["violations"].append(["relayed-to-wrong-host-or-twice", witness])
                    elif status != 200 or resp.body != b"echo:" + vid.encode():
                        res["violations"].append(["forwarded-but-client-got-wrong-response", witness])
                    branch = "forward:%s:%s" % (dest, (docs.get(dest) or {"mode": "none"})["mode"].lower())
                else:
                    branch = "refuse:%s:%s" % (",".join(str(x) for x in sorted(exp)), dest)
                    bump("expected_refusal_%s" % "_".join(str(x) for x in sorted(exp)))
                    if relayed or any(m.raw_contains(vid.encode()) for m in w.mocks.values()):
                        res["violations"].append(["refused-request-reached-upstream", witness])
                    if status not in ERR:
                        res["violations"].append(["refusal-with-wrong-status", witness])
                    elif status not in exp:
                        bump("refused_with_another_status_of_the_set")
                    if dest == "self" and resp is not None and resp.header(RELAY_MARK) is not None:
                        res["violations"].append(["refusal-came-back-through-a-relay", dict(witness, note="the response carries the marker the agent puts on relayed responses: the request was sent on (to the agent's own listener) and the refusal is that of the inner hop")])
                if attr != "record" or (docs.get(dest) and docs[dest]["mode"].lower() != "disabled") or exp != "FORWARD":
                    res["nontrivial"].append(common.sha([branch, method, attr, ident.user]))
                if len(res["samples"]) < 3 and exp != "FORWARD":
                    res["samples"].append(witness)
                bump("branch:" + branch)
            # every byte that reached a mock must belong to a request the table forwards
            for name, m in w.mocks.items():
                for u in m.snapshot():
                    vid = (u.header("x-vf-id") or b"").decode()
                    if vid not in known_ids and vid.startswith("c01-"):
                        pass  # already reported per request
                    elif vid not in known_ids:
                        res["violations"].append(["unattributable-bytes-upstream", {"host": name, "head": u.raw_head.decode("latin-1")[:300]}])
                if m.errors:
                    res["violations"].append(["malformed-bytes-upstream", {"host": name, "errors": m.errors[:3]}])
                with m.lock:
                    # judged: forget them (the per-request lookup scans this list, so it must not grow with the length of the run)
                    m.requests.clear(); m.conn_raw.clear(); del m.errors[:]
        # a process that becomes another program (execve in the same pid) is judged as what it is now: rules that name a program by
        # process name or executable path must refuse it once it runs something else
        for k in range(args.get("exec_histories", 3)):
            e = w.identity(r.choice(["root", "alice"]), "granted", ["--k", str(k)], exec_capable=True)
            by = r.choice(["processName", "exePath"])
            doc = {"defaultAccess": "deny", "mode": "enforce", "id": "c01-exec-%d" % k,
                   "rules": {"privileges": [{"name": "p", "path": "/x"}], "roles": [{"name": "ro", "privileges": ["p"]}],
                             "identities": [{"name": "i", by: (e.exe_name if by == "processName" else e.exe)}], "roleAssignments": [{"role": "ro", "identities": ["i"]}]}}
            w.rules("imds", doc)
            for gi in range(3):
                if gi > 0:
                    e.exec_to("other%d" % gi, ["--gen", str(gi)])
                vid = "c01x-%d-%d-%d" % (args["shard"], k, gi)
                conn = w.open("imds", e)
                conn.send(rawhttp.build_request("GET", "/x/y", [("x-vf-id", vid)]))
                st = conn.read_response().status
                conn.close()
                res["evaluations"] += 1
                relayed = bool(w.upstream(vid))
                wit = {"rule_names_program_by": by, "pid": e.pid, "generation": gi, "current_program": e.exe, "status": st, "relayed": relayed}
                if gi == 0:
                    known_ids[vid] = "imds"
                    if relayed and st != 200:
                        res["violations"].append(["forwarded-but-client-got-wrong-response", wit])
                    elif not relayed:
                        cnt["authorized_by_reference_but_refused"] = cnt.get("authorized_by_reference_but_refused", 0) + 1
                        if st not in ERR:
                            res["violations"].append(["not-relayed-and-no-error-status", wit])
                else:
                    if relayed:
                        res["violations"].append(["refused-request-reached-upstream", wit])
                    if st not in ERR:
                        res["violations"].append(["refusal-with-wrong-status", wit])
                res["nontrivial"].append(common.sha(["exec", by, gi]))
            cnt["exec_histories"] = cnt.get("exec_histories", 0) + 1
        # group membership is that of the caller's own groups: 'g' has no members, its gid is the uid of 'gidzero' (whose primary group
        # is root) - a rule that grants group 'g' admits nobody; the same rule for group 'root' is the control (gidzero is admitted)
        gz = idents[3]
        for k, (grp, member) in enumerate([("g", False), ("root", True), ("g", False), ("vfstaff", False)]):
            doc = {"defaultAccess": "deny", "mode": "enforce", "id": "c01-grp-%d" % k,
                   "rules": {"privileges": [{"name": "p", "path": "/grp"}], "roles": [{"name": "ro", "privileges": ["p"]}],
                             "identities": [{"name": "i", "groupName": grp}], "roleAssignments": [{"role": "ro", "identities": ["i"]}]}}
            w.rules("imds", doc)
            vid = "c01g-%d-%d" % (args["shard"], k)
            conn = w.open("imds", gz)
            conn.send(rawhttp.build_request("GET", "/grp/x", [("x-vf-id", vid)]))
            st = conn.read_response().status
            conn.close()
            res["evaluations"] += 1
            relayed = bool(w.upstream(vid))
            wit = {"rule_grants_group": grp, "caller": {"user": gz.user, "uid": gz.uid, "gid": gz.gid}, "caller_is_member": member, "status": st, "relayed": relayed}
            if member:
                known_ids[vid] = "imds"
                if not relayed:
                    cnt["authorized_by_reference_but_refused"] = cnt.get("authorized_by_reference_but_refused", 0) + 1
                    if st not in ERR:
                        res["violations"].append(["not-relayed-and-no-error-status", wit])
            else:
                if relayed:
                    res["violations"].append(["refused-request-reached-upstream", wit])
                if st not in ERR:
                    res["violations"].append(["refusal-with-wrong-status", wit])
            res["nontrivial"].append(common.sha(["group", grp, k]))
        cnt["group_membership_histories"] = cnt.get("group_membership_histories", 0) + 1
        w.rules("imds", None)
        # policy lookup failure (the key-keeper state task is gone): the lookup must report an error (-> 500), never 'no rules' (-> relayed)
        for ep in ("wireserver", "hostga", "imds"):
            ip, port = wproxy.DESTS[ep]
            o = w.shim.call("rules_lookup_dead_state", ip=ip, port=port)
            res["evaluations"] += 1
            cnt["policy_lookup_failure_probes"] = cnt.get("policy_lookup_failure_probes", 0) + 1
            res["nontrivial"].append("policy-lookup-failure:%s" % ep)
            if o.get("outcome") != "error":
                res["violations"].append(["policy-lookup-failure-treated-as-no-rules", {"endpoint": ep, "outcome": o}])
        for p in w.shim.panics():
            res["violations"].append(["panic:%s" % p.get("location"), p])
    finally:
        w.close()
    return res


def run(tier, rep):
    wproxy.build_helper()
    shards = 8 if tier == "quick" else 16
    args = [{"shard": i, "tier": tier, "policies": 60 if tier == "quick" else 500, "requests": 40 if tier == "quick" else 160} for i in range(shards)]
    rep.coverage["rule"] = ("each case = (destination in {WireServer, HostGAPlugin, IMDS, the listener itself, other}, attribution in {record, none, dead pid, unknown uid, "
                            "non-UTF-8 exe path}, caller process/user, generated rule set+mode per endpoint, method, URL incl. '..' variants, headers, body) sent through the "
                            "real ProxyServer; oracle = decision table from the statement + reference RBAC; observed = client status and every byte at the mock hosts. "
                            "non-trivial = any refusal branch, unattributed/odd attribution, or a non-disabled rule set on the destination; distinct by (branch, method, attribution, user)")
    for res in sandbox.run_many("vf.props.c01", "worker", args, workers=shards, timeout=900 if tier == "quick" else 5400):
        rep.merge_worker(res)
    ef, ar = rep.coverage.get("expected_forward", 0), rep.coverage.get("authorized_by_reference_but_refused", 0)
    if ef and ar * 2 > ef:
        rep.inconclusive.append("%d of the %d requests that the reference authorizes were refused: an agent that relays (almost) nothing satisfies 'relayed only if' "
                                "trivially, the run shows little" % (ar, ef))
    rep.assumptions += ["hook H1 stands in for the kernel audit map (lookup/remove); the aya glue is bypassed",
                        "the 500 branch (policy lookup failure) cannot be driven end to end (all actors live in one runtime); it is probed at the public lookup function with a key-keeper state whose actor is gone",
                        "which of the four statuses (404/421/500/403) answers which refusal reason is not judged (the statement names the set); a request the reference authorizes "
                        "and the agent refuses with one of them is counted (authorized_by_reference_but_refused), not reported"]

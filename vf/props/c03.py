"""C03 - WireServer/HostGAPlugin are root-only under every policy; no self-proxying."""
from .. import common, sandbox, wproxy, rawhttp, gen_rbac, gen_http, pool
from ..oracles import rbac

ENDPOINTS = [("168.63.129.16", 80, "wireserver"), ("168.63.129.16", 32526, "hostga"), ("169.254.169.254", 80, "imds"),
             ("127.0.0.1", 3080, "self"), ("127.0.0.2", 8080, "other"), ("127.0.0.1", 3081, "other"), ("168.63.129.16", 8080, "other")]


def pure_half(tier, rep):
    n = 20000 if tier == "quick" else 400000
    r = common.rng("c03-pure", tier)
    items, meta = [], []
    for i in range(n):
        ip, port, kind = r.choice(ENDPOINTS)
        claims = gen_rbac.gen_claims(r)
        if kind in ("wireserver", "hostga") and r.random() < 0.7:
            claims["runAsElevated"] = False
        doc = None
        if r.random() < 0.85:
            doc = gen_rbac.gen_doc(r, dup_ok=False)
            if r.random() < 0.5:
                # a rule set that explicitly grants this very caller everything
                doc["rules"] = {"privileges": [{"name": "p", "path": "/"}], "roles": [{"name": "r", "privileges": ["p"]}],
                                "identities": [{"name": "i", "userName": claims["userName"]}],
                                "roleAssignments": [{"role": "r", "identities": ["i"]}]}
                doc["defaultAccess"] = "allow"
        url = gen_rbac.gen_url(r)
        items.append({"ip": ip, "port": port, "url": url, "claims": claims, "item": doc})
        meta.append(kind)
    batches = [items[i:i + 2000] for i in range(0, len(items), 2000)]
    p = pool.ShimPool(n=8)
    try:
        results = [x for b in p.map("authorize_batch", batches) for x in b]
        panics = p.panics()
    finally:
        p.close()
    for item, kind, res in zip(items, meta, results):
        rep.evaluated()
        if res.get("panic"):
            rep.violation("panic-in-authorize", item); continue
        if "err" in res:
            rep.count("rejected_inputs"); continue
        got = res["result"]
        elevated = item["claims"]["runAsElevated"]
        wit = {"case": item, "result": got}
        if kind == "self":
            rep.count("pure_self")
            if got != "Forbidden":
                rep.violation("self-destination-not-forbidden", wit)
            rep.nontrivial("self:" + common.sha([item["item"], elevated]))
        elif kind in ("wireserver", "hostga") and not elevated:
            rep.count("pure_nonelevated_%s" % kind)
            if got != "Forbidden":
                rep.violation("non-elevated-%s-not-forbidden" % kind, wit)
            doc = item["item"]
            would_allow = doc is None or rbac.decide(doc, item["claims"], item["url"])[0] is not False or doc["mode"].lower() != "enforce"
            if would_allow:
                rep.nontrivial("ne:" + common.sha([kind, doc, item["claims"]["userName"], item["url"]]))
                rep.sample(wit, 4)
        else:
            # control: the refusal is not a blanket one
            doc = item["item"]
            if kind == "other":
                exp = "Ok"
            elif doc is None:
                exp = "Ok"
            else:
                d, _ = rbac.decide(doc, item["claims"], item["url"])
                if d is None:
                    rep.count("ambiguous_excluded"); continue
                exp = "Ok" if d else ("OkWithAudit" if doc["mode"].lower() == "audit" else "Forbidden")
            rep.count("pure_control_%s" % exp)
            if got != exp:
                rep.violation("control-mismatch:%s" % kind, dict(wit, expected=exp))
    for pn in panics:
        rep.violation("panic:%s" % pn.get("location"), pn)


def refusal(st):
    """'refused' / 'never relayed': the statement does not name the status; any HTTP error status is a refusal (the absence of
    relaying is observed separately, at the mock hosts)"""
    return isinstance(st, int) and 400 <= st < 600


def worker(args, scratch):
    r = common.rng("c03-e2e", args["shard"], args["tier"])
    w = wproxy.World(scratch)
    res = {"evaluations": 0, "nontrivial": [], "samples": [], "counts": {}, "violations": []}
    cnt = res["counts"]
    try:
        callers = [w.identity("alice", "tool", ["x"]), w.identity("bob", "helper", []), w.identity("gidzero", "python3", ["-c", "1"]),
                   # a process whose EFFECTIVE uid is 0 while its real uid (the one in the kernel record) is not: a set-uid-root program run by bob
                   w.identity("bob", "setuidtool", ["--euid0"], euid0=True)]
        root = w.identity("root", "helper", [])
        for pol in range(args["policies"]):
            for ep in ("wireserver", "hostga", "imds"):
                doc = None
                if r.random() < 0.8:
                    doc = gen_rbac.gen_doc(r, dup_ok=False, mode=r.choice(["disabled", "audit", "enforce"]))
                    if r.random() < 0.6:
                        c = r.choice(callers).claims()
                        doc["rules"] = {"privileges": [{"name": "p", "path": "/"}], "roles": [{"name": "r", "privileges": ["p"]}],
                                        "identities": [{"name": "i", "userName": c["userName"]}], "roleAssignments": [{"role": "r", "identities": ["i"]}]}
                w.rules(ep, doc)
            for n in range(args["requests"]):
                vid = "c03-%d-%d-%d" % (args["shard"], pol, n)
                kind = r.choice(["ne-ws", "ne-hga", "self", "self", "ctl-root-ws", "ctl-imds", "ne-stale"])
                who = r.choice(callers)
                if kind == "ne-stale":
                    # an elevated caller used source port P for a WireServer/HostGAPlugin connection; afterwards a non-elevated process binds P and
                    # connects straight to the listener (no kernel record for it): whatever the first connection left behind, nothing of the
                    # second one may reach the host
                    dest = r.choice(["wireserver", "hostga"])
                    first = w.open(dest, root)
                    port = first.src_port
                    first.send(rawhttp.build_request("GET", "/stale/first", [("x-vf-id", "c03-stale-first-%d-%d-%d" % (args["shard"], pol, n))]))
                    try:
                        first.read_response()
                    except Exception:  # noqa
                        pass
                    first.close(abort=True)
                    status, relayed = None, False
                    try:
                        second = w.open(record=False, src_port=port)
                        second.send(rawhttp.build_request("GET", "/stale/second", [("x-vf-id", vid)]))
                        status = second.read_response().status
                        second.close()
                    except OSError:
                        cnt["stale_port_reuse_bind_failed"] = cnt.get("stale_port_reuse_bind_failed", 0) + 1
                        continue
                    except Exception as e:  # noqa
                        status = "error:%r" % (e,)
                    res["evaluations"] += 1
                    cnt["e2e_ne-stale"] = cnt.get("e2e_ne-stale", 0) + 1
                    if w.upstream(vid) or any(m.raw_contains(vid.encode()) for m in w.mocks.values()):
                        res["violations"].append(["e2e-ne-stale-relayed", {"dest": dest, "port": port, "status": status, "history": "elevated connection from port P, then an unattributed connection from port P"}])
                    res["nontrivial"].append(common.sha(["ne-stale", dest, pol, args["shard"]]))
                    continue
                method = r.choice(gen_http.METHODS)
                target = gen_rbac.gen_url(r)
                if r.random() < 0.15:
                    # the two uploads that are exempt from signing (and get the large body limit) are not exempt from this check
                    method, target = r.choice([("PUT", "/vmAgentLog"), ("POST", "/machine/?comp=telemetrydata"), ("PUT", "/VMAGENTLOG"), ("POST", "/Machine/?Comp=TelemetryData")])
                if kind == "ne-ws": dest, ident = "wireserver", who
                elif kind == "ne-hga": dest, ident = "hostga", who
                elif kind == "self": dest, ident = "self", r.choice(callers + [root])
                elif kind == "ctl-root-ws": dest, ident = "wireserver", root
                else: dest, ident = "imds", who
                ev0 = len(wproxy.standin.events(w.vdir))
                kw = {}
                if kind in ("ne-ws", "ne-hga") and r.random() < 0.25:
                    # the same process was elevated a moment ago (a daemon that dropped privileges, a recycled pid): the record of THIS
                    # connection says non-elevated and that is what counts. Every fourth history uses a process the agent has never seen
                    # before, so that its very first connection is the elevated one.
                    if cnt.get("privilege_drop_histories", 0) % 4 == 0:
                        ident = w.identity(ident.user, "dropper", ["--n", str(n)])
                    pre = w.open(dest, ident, uid=0, is_root=1)
                    pre.send(rawhttp.build_request("GET", "/pre", [("x-vf-id", "pre-%d-%d-%d" % (args["shard"], pol, n))]))
                    try:
                        pre.read_response()
                    except Exception:
                        pass
                    pre.close()
                    cnt["privilege_drop_histories"] = cnt.get("privilege_drop_histories", 0) + 1
                    ev0 = len(wproxy.standin.events(w.vdir))
                conn = w.open(dest, ident)
                body = gen_http.body(r, 300) if method in ("POST", "PUT", "PATCH") else b""
                status, marked = None, False
                nreq = r.choice([1, 1, 2, 4]) if kind in ("ne-ws", "ne-hga", "self") else 1
                for k in range(nreq):
                    # several requests on one keep-alive connection: every one of them must be refused, not only the first
                    conn.send(rawhttp.build_request(method, target, gen_http.headers(r) + [("x-vf-id", vid)], body))
                    try:
                        resp = conn.read_response(method.encode())
                        st = resp.status
                        marked = marked or resp.header(b"x-ms-azure-host-authorization") is not None
                    except Exception as e:  # noqa
                        st = "error:%r" % (e,)
                        if k > 0 and not common.is_timeout(st):
                            # the agent closed the connection after refusing the previous request: a refusal as well
                            cnt["connection_closed_after_refusal"] = cnt.get("connection_closed_after_refusal", 0) + 1
                            break
                    if status is None or not refusal(st):
                        status = st
                    if not refusal(st):
                        break
                if nreq > 1:
                    cnt["keepalive_refusal_sequences"] = cnt.get("keepalive_refusal_sequences", 0) + 1
                conn.close()
                if common.is_timeout(status):
                    if not res.get("inconclusive"):
                        res.setdefault("inconclusive", []).append("client socket watchdog (60 s) fired while waiting for the proxy; not a verdict")
                    continue
                res["evaluations"] += 1
                ups = w.upstream(vid)
                wit = {"kind": kind, "dest": dest, "user": ident.user, "method": method, "target": target, "status": status, "relayed_to": [u.host for u in ups]}
                cnt["e2e_" + kind] = cnt.get("e2e_" + kind, 0) + 1
                if kind in ("ne-ws", "ne-hga", "self"):
                    if ups or any(m.raw_contains(vid.encode()) for m in w.mocks.values()):
                        res["violations"].append(["e2e-%s-relayed" % kind, wit])
                    if not refusal(status):
                        res["violations"].append(["e2e-%s-status" % kind, wit])
                    elif status != 403:
                        cnt["refused_with_a_status_other_than_403"] = cnt.get("refused_with_a_status_other_than_403", 0) + 1
                    if kind == "self" and marked:
                        # the marker the agent puts on every response it relays: the refusal is that of an inner hop, the request was sent on
                        res["violations"].append(["e2e-self-relayed", dict(wit, note="response carries the relay marker x-ms-azure-host-authorization")])
                    res["nontrivial"].append(common.sha([kind, ident.user, pol, args["shard"]]))
                    if kind == "self":
                        evs = wproxy.standin.events(w.vdir)[ev0:]
                        lookups = [e for e in evs if e["op"] == "lookup"]
                        # exactly one hit, for this client's port. (The proxy opens its upstream connection eagerly at accept time, here to
                        # its own listener: that second, unattributed connection shows up as a lookup miss, possibly late - misses are not judged.)
                        hits = [e for e in lookups if e["args"][1] == "hit"]
                        if len(hits) != 1 or hits[0]["args"][0] != str(conn.src_port):
                            res["violations"].append(["self-destination-loop", dict(wit, hits=[e["args"] for e in hits])])
                    if len(res["samples"]) < 2:
                        res["samples"].append(wit)
                else:
                    if status == 403:
                        cnt["control_refused_by_rules"] = cnt.get("control_refused_by_rules", 0) + 1
                    elif status == 200 and ups:
                        cnt["control_forwarded"] = cnt.get("control_forwarded", 0) + 1
        for p in w.shim.panics():
            res["violations"].append(["panic:%s" % p.get("location"), p])
    finally:
        w.close()
    return res


def run(tier, rep):
    wproxy.build_helper()
    rep.coverage["rule"] = ("pure half: proxy_authorizer::authorize(ip, port, url, claims, rules) for generated rule sets x modes x defaults x URLs x claims; "
                            "non-elevated WireServer/HostGAPlugin callers must get Forbidden, destination 127.0.0.1:3080 must get Forbidden for every claims/rules, "
                            "control cases (elevated, IMDS, other) must follow the reference RBAC. e2e half: real non-elevated processes against the mock hosts through the "
                            "real ProxyServer under each mode; and records whose original destination is the listener itself. non-trivial = non-elevated caller under a policy that "
                            "would otherwise let it through (or any self-destination case); distinct by (endpoint, rule set, user, url)")
    pure_half(tier, rep)
    shards = 4 if tier == "quick" else 12
    args = [{"shard": i, "tier": tier, "policies": 4 if tier == "quick" else 20, "requests": 150 if tier == "quick" else 500} for i in range(shards)]
    for res in sandbox.run_many("vf.props.c03", "worker", args, workers=shards, timeout=900 if tier == "quick" else 5400):
        rep.merge_worker(res)
    if rep.coverage.get("control_forwarded", 0) == 0 and not rep.violations:
        rep.inconclusive.append("no control request was forwarded (harness problem)")
    rep.assumptions += ["hook H1 stands in for the kernel audit map"]
    # who counts as elevated is decided in the eBPF program (the is_root bit of the kernel record): a slice of the C06 engine (ASan model +
    # real kernel, processes with uid != 0 / gid 0 and uid 0 / gid != 0) judges that bit
    from . import c06
    c06.ebpf_slice(tier, rep, keep=("is_root", "uid-taken-from-gid", "record-wrong:uid", "pending-record-wrong"), nworlds=300 if tier == "quick" else 3000, kernel=True,
                   label="elevation bit of the kernel record")

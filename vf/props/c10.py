"""C10 - The key id in a signature always names the key that produced the MAC."""
import bisect, threading, time
from .. import common, sandbox, wproxy, rawhttp, hostdocs, mockhost
from ..oracles import sig


def worker(args, scratch):
    r = common.rng("c10", args["shard"], args["tier"])
    res = {"evaluations": 0, "nontrivial": [], "samples": [], "counts": {}, "violations": []}
    cnt = res["counts"]
    lock = threading.Lock()

    def bump(k, n=1):
        with lock:
            cnt[k] = cnt.get(k, 0) + n

    def handler(name, req):
        own = hostdocs.own_calls_handler(name, req)
        if own is not None and req.header("x-vf-id") is None:
            # host-side rejections of the agent's own calls (a request signed just before a rotation is rejected by a real
            # host): whatever the agent does next (give up, retry), every request it emits must still pair id and MAC
            if args.get("reject_permille"):
                with lock:
                    k = cnt["own_calls_seen"] = cnt.get("own_calls_seen", 0) + 1
                h = (k * 2654435761 + args["shard"] * 40503) & 0xffffffff
                if h % 1000 < args["reject_permille"]:
                    bump("own_calls_rejected_by_host")
                    return {"status": (401, 403, 401, 500)[(h >> 12) % 4], "body": b"rejected"}
            return own
        return {"status": 200, "body": b"ok"}
    env = {}
    if args["delays"]:
        env = {"GPA_VERIF_DELAY": "get_key:%d:%d" % (args["delay_permille"], args["delay_us"]), "GPA_VERIF_DELAY_SEED": str(args["shard"] + 7)}
    w = wproxy.World(scratch, runtime="multi:8", env=env, handler=handler, log_level="Info")
    try:
        root = w.identity("root", "helper", [])
        keys = {}
        klist = []
        for i in range(args["generations"]):
            guid = "dddddddd-%04x-4000-8000-%012x" % (args["shard"], i)
            bits = r.choice([128, 256, 256, 512, 384])        # the key is a hex string of whatever length the host chose
            keys[guid] = "%0*x" % (bits // 4, r.getrandbits(bits))
            if i % 37 == 19:
                keys[guid] = ""      # a key document with an empty key value is a key document too (the empty string is valid hex): its MACs are made with the empty key
            klist.append({"authorizationScheme": "Azure-HMAC-SHA256", "guid": guid, "incarnationId": i, "issued": "2024-01-01T00:00:00Z", "key": keys[guid]})
        w.key(klist[0]["guid"], klist[0]["key"])
        if args["own_calls"]:
            w.shim.call("event_reader_start", dir=scratch + "/events", interval_ms=1, delay_start=False)
        stop = threading.Event()
        sent = []   # (vid, t_send, t_done)
        client_auth = {}    # vid -> authorization value the CLIENT put on its request

        def client(ci):
            rr = common.rng("c10-client", args["shard"], ci)
            n = 0
            conn = None
            while not stop.is_set():
                try:
                    if conn is None:
                        conn = w.open(rr.choice(["other", "imds"]), root)
                    vid = "c10-%d-%d-%d" % (args["shard"], ci, n)
                    n += 1
                    t0 = time.monotonic_ns()
                    hs = [("x-vf-id", vid), ("x-h", "v")]
                    if n % 9 == 4:
                        # the client supplies an authorization header of its own that names a real key id: what the host receives must still be
                        # one header whose id and MAC belong together
                        hs.append(("x-ms-azure-host-authorization", "Azure-HMAC-SHA256 %s %s" % (klist[rr.randrange(len(klist))]["guid"], "ab" * 32)))
                        with lock:
                            client_auth[vid] = hs[-1][1].encode()
                        bump("requests_with_a_client_supplied_authorization_header")
                    conn.send(rawhttp.build_request("GET", "/k/%s?a=1&b=2" % vid, hs))
                    resp = conn.read_response()
                    t1 = time.monotonic_ns()
                    with lock:
                        sent.append((vid, t0, t1, resp.status))
                    if n % 50 == 0:
                        conn.close(); conn = None
                except Exception as e:  # noqa
                    bump("client_errors")
                    try:
                        conn.close()
                    except Exception:
                        pass
                    conn = None
            if conn:
                conn.close()
        ts = [threading.Thread(target=client, args=(ci,)) for ci in range(args["clients"])]
        for t in ts: t.start()
        rot = w.shim.call("rotate_keys", timeout=600, keys=klist[1:], period_us=args["period_us"], clear_every=args["clear_every"])["log"]
        time.sleep(0.05)
        stop.set()
        for t in ts: t.join()
        time.sleep(0.2)
        # byte-identical requests (same method, URL, headers; within one second also the same date) with a key change between them and no
        # other signed request in between: whatever is remembered from signing the previous one, the MAC must be made with the key that is
        # announced now
        if args["shard"] % 2 == 0:
            conn = w.open("other", root)
            alt = klist[:4]
            for k in range(args.get("identical", 120)):
                kk = alt[k % len(alt)]
                w.key(kk["guid"], kk["key"])
                try:
                    conn.send(rawhttp.build_request("GET", "/same?a=1", [("x-vf-id", "c10-same-%d" % args["shard"]), ("x-h", "v")]))
                    conn.read_response()
                except Exception:  # noqa
                    conn.close(); conn = w.open("other", root)
                bump("identical_requests_across_key_changes")
            conn.close()
        rot_times = sorted(int(x[1]) for x in rot)
        clear_spans = [(int(x[1]), int(x[2])) for x in rot if x[0] == "clear"]
        bump("key_generations", len([x for x in rot if x[0] != "clear"]) + 1)
        bump("clears", len(clear_spans))
        by_id = {v[0]: v for v in sent}
        for name, m in w.mocks.items():
            for u in m.snapshot():
                res["evaluations"] += 1
                vid = (u.header("x-vf-id") or b"").decode()
                own = vid == ""
                if own and sig.is_exempt(u.method, u.target):
                    continue
                verdict, detail = sig.verify(u, keys)
                kind = "own" if own else "proxied"
                if not own and verdict != "unsigned" and client_auth.get(vid) is not None and rawhttp.hget(u.headers, b"x-ms-azure-host-authorization") == [client_auth[vid]]:
                    # not a header the agent emitted: the request went out unsigned (no key at that moment) and the only authorization
                    # header on it is, byte for byte, the one the client had put there - judged as the unsigned request it is
                    verdict = "unsigned"
                    bump("client_header_passed_through_on_unsigned_request")
                bump("%s:%s" % (kind, verdict))
                straddle = False
                if not own and vid in by_id:
                    _, t0, t1, _ = by_id[vid]
                    i = bisect.bisect_left(rot_times, t0)
                    straddle = i < len(rot_times) and rot_times[i] <= t1
                    if straddle:
                        bump("proxied_requests_straddling_a_rotation")
                        res["nontrivial"].append(vid)
                elif own:
                    res["nontrivial"].append("own-%d" % res["evaluations"])
                wit = {"kind": kind, "head": u.raw_head.decode("latin-1"), "verdict": verdict, "detail": str(detail), "straddles_rotation": straddle}
                if verdict in ("ok", "ok-lenient"):
                    continue
                if verdict == "unsigned":
                    if not clear_spans:
                        res["violations"].append(["%s-unsigned-although-no-clear-happened" % kind, wit])
                    else:
                        bump("unsigned_with_clears_in_run")
                    continue
                if verdict == "mismatch":
                    other = sig.find_key(u, keys)
                    wit["mac_verifies_under"] = other
                    if other:
                        res["violations"].append(["%s-guid-of-one-key-mac-of-another" % kind, wit])
                    else:
                        res["violations"].append(["%s-mac-under-no-known-key" % kind, wit])
                else:
                    res["violations"].append(["%s-%s" % (kind, verdict), wit])
        if args["delays"]:
            c = w.shim.call("delay_counts")["counts"].get("get_key", [0, 0])
            bump("delay_point_get_key_reached", c[0]); bump("delay_point_get_key_fired", c[1])
        res["samples"].append({"clients": args["clients"], "generations": args["generations"], "period_us": args["period_us"], "clear_every": args["clear_every"],
                               "delays": args["delays"], "requests": len(sent), "rotation_log_head": rot[:3]})
        for p in w.shim.panics():
            res["violations"].append(["panic:%s" % p.get("location"), p])
    finally:
        w.close()
    return res


def local_key_worker(args, scratch):
    """the real key keeper finds the latched key in the local store; the store holds, under the name of the latched key, a file whose content is
    ANOTHER key document (restore from an old backup, a copy that went wrong): whichever key the agent ends up using, id and MAC of what it
    emits belong together"""
    import os, json as _json
    from .. import wsmock, shim as shimmod
    res = {"evaluations": 0, "nontrivial": [], "samples": [], "counts": {}, "violations": []}
    r = common.rng("c10-local", args["tier"], args["shard"])
    key_dir = os.path.join(scratch, "keys")
    os.makedirs(key_dir, exist_ok=True)
    ws = wsmock.WsMock("168.63.129.16", 80, rng=r, key_dir=key_dir, fallback=lambda name, req: hostdocs.own_calls_handler(name, req) or {"status": 200, "body": b"ok"})
    ws.version = "1.0"; ws.state_v1 = "Wireserver"
    k1, k2 = ws.new_key(), ws.new_key()
    ws.latched = k2["guid"]; ws.latched_history.append(k2["guid"])
    variant = args["shard"] % 4
    if variant == 0:      # file named after the latched key, content of another key
        open(os.path.join(key_dir, k2["guid"] + ".key"), "w").write(_json.dumps(k1))
    elif variant == 1:    # same, with the guid written in upper case inside the document
        d = dict(k1); d["guid"] = d["guid"].upper()
        open(os.path.join(key_dir, k2["guid"] + ".key"), "w").write(_json.dumps(d))
    elif variant == 3:    # the latched key's file holds a key value that is not hex (damaged file): nothing can be signed with it
        d = dict(k2); d["key"] = "zz" + d["key"][2:]
        open(os.path.join(key_dir, k2["guid"] + ".key"), "w").write(_json.dumps(d))
    else:                 # control: the right document
        open(os.path.join(key_dir, k2["guid"] + ".key"), "w").write(_json.dumps(k2))
    imds = mockhost.MockHost("169.254.169.254", 80, lambda req: hostdocs.own_calls_handler("imds", req) or {"status": 200, "body": b"{}"}, name="imds")
    sh = shimmod.Shim(scratch + "/shim", runtime="multi:4")
    try:
        sh.call("init", log_dir=scratch + "/logs", log_level="Info")
        sh.call("key_keeper_start", base_url="http://168.63.129.16:80/", key_dir=key_dir, log_dir=scratch + "/logs", interval_ms=50)
        t0 = time.time()
        while ws.count("status") < 3 and time.time() - t0 < 10:
            time.sleep(0.02)
        sh.call("event_reader_start", dir=scratch + "/events", interval_ms=5, delay_start=False)
        t0 = time.time()
        while time.time() - t0 < 3:
            n = sum(1 for u in ws.mock.snapshot() if u.header("x-ms-azure-host-authorization"))
            if n >= 10:
                break
            time.sleep(0.05)
        keys = dict(ws.issued)
        for m in (ws.mock, imds):
            for u in m.snapshot():
                if not u.header("x-ms-azure-host-authorization") or sig.is_exempt(u.method, u.target):
                    continue
                res["evaluations"] += 1
                verdict, detail = sig.verify(u, keys)
                res["counts"]["local-store-variant-%d:%s" % (variant, verdict)] = res["counts"].get("local-store-variant-%d:%s" % (variant, verdict), 0) + 1
                if verdict == "mismatch":
                    other = sig.find_key(u, keys)
                    res["violations"].append(["own-guid-of-one-key-mac-of-another" if other else "own-mac-under-no-known-key",
                                              {"head": u.raw_head.decode("latin-1"), "mac_verifies_under": other, "local_store": "file named after the latched key holds another key document" if variant < 2 else "control"}])
                    break
                if verdict in ("bad-format", "multiple"):
                    res["violations"].append(["own-%s" % verdict, {"head": u.raw_head.decode("latin-1"), "local_store_variant": variant}])
                    break
        res["nontrivial"].append("local-store-variant-%d" % variant)
        for p in sh.panics():
            res["violations"].append(["panic:%s" % p.get("location"), p])
    finally:
        sh.close(); ws.close(); imds.close()
    return res


def run(tier, rep):
    wproxy.build_helper()
    rep.coverage["rule"] = ("8-32 keep-alive clients send signed requests through the real ProxyServer while the latched key is replaced/cleared from inside the process by the same update_key/clear_key the key "
                            "keeper uses (hundreds to thousands of generations, period 0-2000us), with the real EventReader issuing the agent's own goal-state/shared-config/IMDS calls; delay point get_key "
                            "on in half of the runs. oracle at the mock host: MAC must verify under the secret registered for the announced guid. non-trivial = proxied request whose [send, receive] interval "
                            "contains a rotation, or an own call; distinct by request id")
    shards = 8 if tier == "quick" else 16
    args = []
    for i in range(shards):
        args.append({"shard": i, "tier": tier, "clients": [8, 16, 32][i % 3], "generations": 600 if tier == "quick" else 6000,
                     "period_us": [0, 200, 1000, 2000][i % 4], "clear_every": 0 if i % 4 else 50, "delays": i % 2 == 0,
                     "delay_permille": 500, "delay_us": 1500, "own_calls": i % 3 != 2, "reject_permille": 300 if i % 4 in (1, 2) else 0})
    for res in sandbox.run_many("vf.props.c10", "worker", args, workers=shards, timeout=1500 if tier == "quick" else 9000):
        rep.merge_worker(res)
    for res in sandbox.run_many("vf.props.c10", "local_key_worker", [{"shard": i, "tier": tier} for i in range(4 if tier == "quick" else 12)], workers=4, timeout=600 if tier == "quick" else 3600):
        rep.merge_worker(res)
    if rep.coverage.get("proxied_requests_straddling_a_rotation", 0) < 300 and not rep.violations:
        rep.inconclusive.append("fewer than 300 requests straddled a rotation")
    rep.assumptions += ["canonicalisation as in C04 (these requests use none of the ambiguous features)"]

"""C10 - The key id in a signature always names the key that produced the MAC."""
import bisect, threading, time
from .. import common, sandbox, wproxy, rawhttp, hostdocs
from ..oracles import sig


def worker(args, scratch):
    r = common.rng("c10", args["shard"], args["tier"])
    res = {"evaluations": 0, "nontrivial": [], "samples": [], "counts": {}, "violations": []}
    cnt = res["counts"]
    lock = threading.Lock()

    def bump(k, n=1):
        with lock:
            cnt[k] = cnt.get(k, 0) + n

    def handler(name, req):
        own = hostdocs.own_calls_handler(name, req)
        if own is not None and req.header("x-vf-id") is None:
            # host-side rejections of the agent's own calls (a request signed just before a rotation is rejected by a real
            # host): whatever the agent does next (give up, retry), every request it emits must still pair id and MAC
            if args.get("reject_permille"):
                with lock:
                    k = cnt["own_calls_seen"] = cnt.get("own_calls_seen", 0) + 1
                h = (k * 2654435761 + args["shard"] * 40503) & 0xffffffff
                if h % 1000 < args["reject_permille"]:
                    bump("own_calls_rejected_by_host")
                    return {"status": (401, 403, 401, 500)[(h >> 12) % 4], "body": b"rejected"}
            return own
        return {"status": 200, "body": b"ok"}
    env = {}
    if args["delays"]:
        env = {"GPA_VERIF_DELAY": "get_key:%d:%d" % (args["delay_permille"], args["delay_us"]), "GPA_VERIF_DELAY_SEED": str(args["shard"] + 7)}
    w = wproxy.World(scratch, runtime="multi:8", env=env, handler=handler, log_level="Info")
    try:
        root = w.identity("root", "helper", [])
        keys = {}
        klist = []
        for i in range(args["generations"]):
            guid = "dddddddd-%04x-4000-8000-%012x" % (args["shard"], i)
            keys[guid] = "%064x" % r.getrandbits(256)
            klist.append({"authorizationScheme": "Azure-HMAC-SHA256", "guid": guid, "incarnationId": i, "issued": "2024-01-01T00:00:00Z", "key": keys[guid]})
        w.key(klist[0]["guid"], klist[0]["key"])
        if args["own_calls"]:
            w.shim.call("event_reader_start", dir=scratch + "/events", interval_ms=1, delay_start=False)
        stop = threading.Event()
        sent = []   # (vid, t_send, t_done)

        def client(ci):
            rr = common.rng("c10-client", args["shard"], ci)
            n = 0
            conn = None
            while not stop.is_set():
                try:
                    if conn is None:
                        conn = w.open(rr.choice(["other", "imds"]), root)
                    vid = "c10-%d-%d-%d" % (args["shard"], ci, n)
                    n += 1
                    t0 = time.monotonic_ns()
                    conn.send(rawhttp.build_request("GET", "/k/%s?a=1&b=2" % vid, [("x-vf-id", vid), ("x-h", "v")]))
                    resp = conn.read_response()
                    t1 = time.monotonic_ns()
                    with lock:
                        sent.append((vid, t0, t1, resp.status))
                    if n % 50 == 0:
                        conn.close(); conn = None
                except Exception as e:  # noqa
                    bump("client_errors")
                    try:
                        conn.close()
                    except Exception:
                        pass
                    conn = None
            if conn:
                conn.close()
        ts = [threading.Thread(target=client, args=(ci,)) for ci in range(args["clients"])]
        for t in ts: t.start()
        rot = w.shim.call("rotate_keys", timeout=600, keys=klist[1:], period_us=args["period_us"], clear_every=args["clear_every"])["log"]
        time.sleep(0.05)
        stop.set()
        for t in ts: t.join()
        time.sleep(0.2)
        rot_times = sorted(int(x[1]) for x in rot)
        clear_spans = [(int(x[1]), int(x[2])) for x in rot if x[0] == "clear"]
        bump("key_generations", len([x for x in rot if x[0] != "clear"]) + 1)
        bump("clears", len(clear_spans))
        by_id = {v[0]: v for v in sent}
        for name, m in w.mocks.items():
            for u in m.snapshot():
                res["evaluations"] += 1
                vid = (u.header("x-vf-id") or b"").decode()
                own = vid == ""
                if own and sig.is_exempt(u.method, u.target):
                    continue
                verdict, detail = sig.verify(u, keys)
                kind = "own" if own else "proxied"
                bump("%s:%s" % (kind, verdict))
                straddle = False
                if not own and vid in by_id:
                    _, t0, t1, _ = by_id[vid]
                    i = bisect.bisect_left(rot_times, t0)
                    straddle = i < len(rot_times) and rot_times[i] <= t1
                    if straddle:
                        bump("proxied_requests_straddling_a_rotation")
                        res["nontrivial"].append(vid)
                elif own:
                    res["nontrivial"].append("own-%d" % res["evaluations"])
                wit = {"kind": kind, "head": u.raw_head.decode("latin-1"), "verdict": verdict, "detail": str(detail), "straddles_rotation": straddle}
                if verdict in ("ok", "ok-lenient"):
                    continue
                if verdict == "unsigned":
                    if not clear_spans:
                        res["violations"].append(["%s-unsigned-although-no-clear-happened" % kind, wit])
                    else:
                        bump("unsigned_with_clears_in_run")
                    continue
                if verdict == "mismatch":
                    other = sig.find_key(u, keys)
                    wit["mac_verifies_under"] = other
                    if other:
                        res["violations"].append(["%s-guid-of-one-key-mac-of-another" % kind, wit])
                    else:
                        res["violations"].append(["%s-mac-under-no-known-key" % kind, wit])
                else:
                    res["violations"].append(["%s-%s" % (kind, verdict), wit])
        if args["delays"]:
            c = w.shim.call("delay_counts")["counts"].get("get_key", [0, 0])
            bump("delay_point_get_key_reached", c[0]); bump("delay_point_get_key_fired", c[1])
        res["samples"].append({"clients": args["clients"], "generations": args["generations"], "period_us": args["period_us"], "clear_every": args["clear_every"],
                               "delays": args["delays"], "requests": len(sent), "rotation_log_head": rot[:3]})
        for p in w.shim.panics():
            res["violations"].append(["panic:%s" % p.get("location"), p])
    finally:
        w.close()
    return res


def run(tier, rep):
    wproxy.build_helper()
    rep.coverage["rule"] = ("8-32 keep-alive clients send signed requests through the real ProxyServer while the latched key is replaced/cleared from inside the process by the same update_key/clear_key the key "
                            "keeper uses (hundreds to thousands of generations, period 0-2000us), with the real EventReader issuing the agent's own goal-state/shared-config/IMDS calls; delay point get_key "
                            "on in half of the runs. oracle at the mock host: MAC must verify under the secret registered for the announced guid. non-trivial = proxied request whose [send, receive] interval "
                            "contains a rotation, or an own call; distinct by request id")
    shards = 8 if tier == "quick" else 16
    args = []
    for i in range(shards):
        args.append({"shard": i, "tier": tier, "clients": [8, 16, 32][i % 3], "generations": 600 if tier == "quick" else 6000,
                     "period_us": [0, 200, 1000, 2000][i % 4], "clear_every": 0 if i % 4 else 50, "delays": i % 2 == 0,
                     "delay_permille": 500, "delay_us": 1500, "own_calls": i % 3 != 2, "reject_permille": 300 if i % 4 in (1, 2) else 0})
    for res in sandbox.run_many("vf.props.c10", "worker", args, workers=shards, timeout=1500 if tier == "quick" else 9000):
        rep.merge_worker(res)
    if rep.coverage.get("proxied_requests_straddling_a_rotation", 0) < 300 and not rep.violations:
        rep.inconclusive.append("fewer than 300 requests straddled a rotation")
    rep.assumptions += ["canonicalisation as in C04 (these requests use none of the ambiguous features)"]

"""C20 - Extension health has hysteresis: Error only after sustained failure."""
import json, os, shutil, subprocess, tempfile
from .. import common


def monitor_worker(args, scratch):
    """runs the engine's monitor layer inside the sandbox (private /var/log: the aggregate status file has a fixed location)"""
    res = {"evaluations": 0, "nontrivial": [], "samples": [], "counts": {}, "violations": []}
    out = os.path.join(scratch, "monitor.json")
    logdir = os.path.join(scratch, "log")
    os.makedirs(logdir, exist_ok=True)
    q = subprocess.run([args["exe"]], env=dict(os.environ, C20_MODE="monitor", C20_OUT=out, C20_LOGDIR=logdir), stdout=subprocess.PIPE, stderr=subprocess.STDOUT, timeout=2400, cwd=scratch)
    if q.returncode != 0 or not os.path.exists(out):
        if b"panicked" in q.stdout:
            res["violations"].append(["panic-in-extension-code", {"output": q.stdout.decode(errors="replace")[-1500:]}])
            res["evaluations"] = 1
            return res
        res["inconclusive"] = ["c20 monitor layer failed: " + q.stdout.decode(errors="replace")[-800:]]
        return res
    m = json.load(open(out))
    res["evaluations"] = m["monitor"]["events"]
    res["counts"] = {"monitor_layer": m["monitor"]}
    res["nontrivial"] = ["c20-monitor-%d" % i for i in range(m["distinct_nontrivial"])]
    for v in m["violations"]:
        res["violations"].append([v["signature"], v])
    if m["monitor"]["event_queue_push_failures"]:
        res["inconclusive"] = ["event queue overflowed in the monitor layer (%d pushes failed): notification texts not observable" % m["monitor"]["event_queue_push_failures"]]
    return res


def run(tier, rep):
    exe = os.path.join(common.RUST_TARGET, "release", "c20_engine")
    env = dict(common.CARGO_ENV, CARGO_TARGET_DIR=common.RUST_TARGET)
    p = subprocess.run(["cargo", "build", "--offline", "--release", "-p", "gpa-shim", "--bin", "c20_engine"], env=env, cwd=os.path.join(common.VERIF, "rust"),
                       stdout=subprocess.PIPE, stderr=subprocess.STDOUT)
    if p.returncode != 0:
        raise common.Inconclusive("c20 engine build failed: " + p.stdout.decode()[-1500:])
    d = tempfile.mkdtemp(prefix="gpa-verif.", dir="/var/tmp")
    try:
        out = os.path.join(d, "out.json")
        depth = 16 if tier == "quick" else 22
        q = subprocess.run([exe], env=dict(os.environ, C20_MAXLEN=str(depth), C20_OUT=out, C20_LOGDIR=os.path.join(d, "log")), stdout=subprocess.PIPE, stderr=subprocess.STDOUT, timeout=3000, cwd=d)
        if q.returncode != 0 or not os.path.exists(out):
            if b"panicked" in q.stdout:
                rep.violation("panic-in-extension-code", {"output": q.stdout.decode(errors="replace")[-1500:]})
                rep.coverage["evaluations"] = 1
                return
            raise common.Inconclusive("c20 engine failed: " + q.stdout.decode(errors="replace")[-800:])
        res = json.load(open(out))
    finally:
        shutil.rmtree(d, ignore_errors=True)
    rep.coverage["evaluations"] = res["sequences"] + res["notifications"]["notification_sequences"]
    for i in range(res["distinct_nontrivial"]):
        rep.nontrivial("c20-%d" % i)   # measured by the engine (set of content hashes); mirrored here for the report
    rep.coverage["samples"] = res["samples"]
    for k in ("exhaustive_depth", "exhaustive_sequences", "observations", "sequences_reaching_error", "reference_automaton_disagreements", "notifications"):
        rep.coverage[k] = res[k]
    rep.coverage["exhaustive"] = True
    rep.coverage["rule"] = ("health observations: ALL 2^L success/failure sequences for L <= %d, plus (any 7 bits) fail^n (any 7 bits) for n = 15..26, plus runs of 9990..20001 identical observations through the "
                            "counters' saturation point followed by every suffix of length <= 8, driven through the real StatusState; judged by the statement's trace predicates (Error only with >= 20 trailing "
                            "failures and never directly after a success; one success leaves Error; two consecutive successes give Success); a reference automaton is compared for information. notifications: every "
                            "sequence over 3 keys x 3 values up to length 4 and runs of 1..1000 identical notifications through the real write_state_event (the crate's own MAX_STATE_COUNT), emission read back from the "
                            "log: emitted on first/changed value, and never twice within 120 repetitions of an unchanged value. non-trivial = sequence reaching Error or crossing 19/20/21 trailing failures, or a "
                            "notification run >= 120; distinct by content hash. monitor layer (sandboxed, aggregate status file at its production path): the real report_proxy_agent_aggregate_status / "
                            "extension_substatus / report_proxy_agent_service_status over every sequence of length <= 4 of {poll ok, poll missing, poll corrupt, poll version-mismatch, update ok, update failed, update "
                            "not launched}, failure runs of 17..23 mixed failures, and runs up to 300 polls; judged on the status written to the <seq>.status file (same hysteresis predicates) and on the notifications "
                            "found in the log, classified by subject (file readable / version matches): emitted on change, never twice within 120 repetitions") % res["exhaustive_depth"]
    for v in res["violations"]:
        rep.violation(v["signature"], v)
    from .. import sandbox
    mres = sandbox.run("vf.props.c20", "monitor_worker", {"exe": exe, "tier": tier}, timeout=3000)
    ev0 = rep.coverage["evaluations"]
    rep.merge_worker(mres)
    rep.coverage["evaluations"] = ev0 + mres.get("evaluations", 0)
    if tier == "thorough":
        from .. import miri
        mr = common.rng("c20-miri")
        corpus = [{"seq": "".join(mr.choice("01") for _ in range(mr.randrange(1, 40)))} for _ in range(300)] + [{"seq": "0" * n + "1" * k + "0" * 3} for n in (19, 20, 21, 25) for k in (1, 2)]
        miri.run({"status_state": corpus}, [], rep)
    rep.assumptions += ["exact transition timing beyond what the statement fixes (e.g. Error exactly at the 20th failure) is not required; disagreements with the reference automaton are reported, not judged"]

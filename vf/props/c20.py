"""C20 - Extension health has hysteresis: Error only after sustained failure."""
import json, os, shutil, subprocess, tempfile
from .. import common


def monitor_worker(args, scratch):
    """runs the engine's monitor layer inside the sandbox (private /var/log: the aggregate status file has a fixed location)"""
    res = {"evaluations": 0, "nontrivial": [], "samples": [], "counts": {}, "violations": []}
    out = os.path.join(scratch, "monitor.json")
    logdir = os.path.join(scratch, "log")
    os.makedirs(logdir, exist_ok=True)
    q = subprocess.run([args["exe"]], env=dict(os.environ, C20_MODE="monitor", C20_OUT=out, C20_LOGDIR=logdir), stdout=subprocess.PIPE, stderr=subprocess.STDOUT, timeout=2400, cwd=scratch)
    if q.returncode != 0 or not os.path.exists(out):
        if b"panicked" in q.stdout:
            res["violations"].append(["panic-in-extension-code", {"output": q.stdout.decode(errors="replace")[-1500:]}])
            res["evaluations"] = 1
            return res
        res["inconclusive"] = ["c20 monitor layer failed: " + q.stdout.decode(errors="replace")[-800:]]
        return res
    m = json.load(open(out))
    res["evaluations"] = m["monitor"]["events"]
    res["counts"] = {"monitor_layer": m["monitor"]}
    res["nontrivial"] = ["c20-monitor-%d" % i for i in range(m["distinct_nontrivial"])]
    for v in m["violations"]:
        res["violations"].append([v["signature"], v])
    if m["monitor"]["event_queue_push_failures"]:
        res["inconclusive"] = ["event queue overflowed in the monitor layer (%d pushes failed): notification texts not observable" % m["monitor"]["event_queue_push_failures"]]
    return res


def loop_worker(args, scratch):
    """loop layer: the real service_main::run() (monitor loop + heartbeat) on a paused clock inside the sandbox; see c20_engine.rs loop_layer"""
    res = {"evaluations": 0, "nontrivial": [], "samples": [], "counts": {}, "violations": []}
    r = common.rng("c20-loop", args["tier"])
    version = "9.9.9-c20"
    ext = os.path.join(scratch, "ext")
    os.makedirs(os.path.join(ext, "ProxyAgent", "ProxyAgent"))
    shutil.copy(args["exe"], os.path.join(ext, "c20_engine"))
    script = "#!/bin/sh\nif [ \"$1\" = \"--version\" ]; then echo %s; fi\nexit 0\n" % version
    for pth in (os.path.join(ext, "ProxyAgent", "ProxyAgent", "azure-proxy-agent"), os.path.join(ext, "ProxyAgent", "proxy_agent_setup")):
        open(pth, "w").write(script if pth.endswith("azure-proxy-agent") else "#!/bin/sh\necho \"$@\" >> %s/setup-calls.log\nexit 0\n" % ext)
        os.chmod(pth, 0o755)
    # the installed service binary (fixed path /usr/sbin/azure-proxy-agent) reports the same version: an overlay keeps the real /usr/sbin untouched
    up, wk = os.path.join(scratch, "sbin-upper"), os.path.join(scratch, "sbin-work")
    os.makedirs(up); os.makedirs(wk)
    subprocess.run(["mount", "-t", "overlay", "overlay", "-o", "lowerdir=/usr/sbin,upperdir=%s,workdir=%s" % (up, wk), "/usr/sbin"], check=True)
    open("/usr/sbin/azure-proxy-agent", "w").write(script); os.chmod("/usr/sbin/azure-proxy-agent", 0o755)
    henv = [{"version": 1.0, "handlerEnvironment": {"logFolder": os.path.join(ext, "log"), "statusFolder": os.path.join(ext, "status"), "configFolder": os.path.join(ext, "config"),
                                                       "heartbeatFile": os.path.join(ext, "heartbeat.json"), "eventsFolder": os.path.join(ext, "events")}}]
    json.dump(henv, open(os.path.join(ext, "HandlerEnvironment.json"), "w"))
    plans = [",".join(["m"] * 24), "o,o,o,+o,o,o,o", "o,m,m,o,o,v,v,v,o,c,o,o", ",".join(["v"] * 22) + ",o,o", ",".join(["c"] * 21) + ",o,m,o,o", "m,o,o,+m,+o,o,o"]
    for _ in range(4 if args["tier"] == "quick" else 60):
        steps = []
        for i in range(r.randrange(8, 40)):
            st = r.choice(["o", "o", "m", "c", "v"])
            steps.append(("+" if i and r.random() < 0.1 else "") + st)
        plans.append(",".join(steps))
    for pi, plan in enumerate(plans):
        for d in ("status", "log", "config", "events"):
            shutil.rmtree(os.path.join(ext, d), ignore_errors=True)
            os.makedirs(os.path.join(ext, d))
        shutil.rmtree("/var/log/azure-proxy-agent", ignore_errors=True)
        out = os.path.join(scratch, "loop-%d.json" % pi)
        q = subprocess.run([os.path.join(ext, "c20_engine")], env=dict(os.environ, C20_MODE="loop", C20_PLAN=plan, C20_OUT=out, C20_VERSION=version),
                           stdout=subprocess.PIPE, stderr=subprocess.STDOUT, timeout=600, cwd=ext)
        if q.returncode != 0 or not os.path.exists(out):
            if b"panicked" in q.stdout:
                res["violations"].append(["panic-in-extension-code", {"plan": plan, "output": q.stdout.decode(errors="replace")[-1200:]}])
                continue
            res.setdefault("inconclusive", []).append("c20 loop layer failed: " + q.stdout.decode(errors="replace")[-600:])
            continue
        rows = json.load(open(out))["rows"]
        fail_run, prev_ok, prev_err = 0, False, False
        for row in rows:
            res["evaluations"] += 1
            ok = row["observation"] == "o"
            fail_run = 0 if ok else fail_run + 1
            st = row["status_file"].lower()
            wit = {"plan": plan, "iteration": row["iteration"], "observation": row["observation"], "sequence_number": row["sequence_number"], "status_file": row["status_file"],
                   "consecutive_failed_observations": fail_run, "rows_so_far": [(x["observation"], x["status_file"]) for x in rows[max(0, row["iteration"] - 6):row["iteration"] + 1]]}
            if st == "error" and fail_run < 20:
                res["violations"].append(["loop:error-reported-%s" % ("directly-after-a-success" if ok else "before-20-consecutive-failures"), wit]); break
            if ok and prev_err and st == "error":
                res["violations"].append(["loop:one-success-did-not-leave-error", wit]); break
            if ok and prev_ok and st != "success":
                res["violations"].append(["loop:two-consecutive-successes-did-not-yield-success", wit]); break
            prev_ok, prev_err = ok, st == "error"
        if "+" in plan or any(rw["status_file"].lower() == "error" for rw in rows):
            res["nontrivial"].append(common.sha(["loop", plan]))
        res["counts"]["loop_layer_plans"] = res["counts"].get("loop_layer_plans", 0) + 1
        res["counts"]["loop_layer_plans_reaching_error"] = res["counts"].get("loop_layer_plans_reaching_error", 0) + (1 if any(rw["status_file"].lower() == "error" for rw in rows) else 0)
        if len(res["samples"]) < 2:
            res["samples"].append({"layer": "loop", "plan": plan, "statuses": [rw["status_file"] for rw in rows][:30]})
    return res


def run(tier, rep):
    exe = os.path.join(common.RUST_TARGET, "release", "c20_engine")
    env = dict(common.CARGO_ENV, CARGO_TARGET_DIR=common.RUST_TARGET)
    p = subprocess.run(["cargo", "build", "--offline", "--release", "-p", "gpa-shim", "--bin", "c20_engine"], env=env, cwd=os.path.join(common.VERIF, "rust"),
                       stdout=subprocess.PIPE, stderr=subprocess.STDOUT)
    if p.returncode != 0:
        raise common.Inconclusive("c20 engine build failed: " + p.stdout.decode()[-1500:])
    d = tempfile.mkdtemp(prefix="gpa-verif.", dir="/var/tmp")
    try:
        out = os.path.join(d, "out.json")
        depth = 16 if tier == "quick" else 22
        q = subprocess.run([exe], env=dict(os.environ, C20_MAXLEN=str(depth), C20_OUT=out, C20_LOGDIR=os.path.join(d, "log")), stdout=subprocess.PIPE, stderr=subprocess.STDOUT, timeout=3000, cwd=d)
        if q.returncode != 0 or not os.path.exists(out):
            if b"panicked" in q.stdout:
                rep.violation("panic-in-extension-code", {"output": q.stdout.decode(errors="replace")[-1500:]})
                rep.coverage["evaluations"] = 1
                return
            raise common.Inconclusive("c20 engine failed: " + q.stdout.decode(errors="replace")[-800:])
        res = json.load(open(out))
    finally:
        shutil.rmtree(d, ignore_errors=True)
    rep.coverage["evaluations"] = res["sequences"] + res["notifications"]["notification_sequences"]
    for i in range(res["distinct_nontrivial"]):
        rep.nontrivial("c20-%d" % i)   # measured by the engine (set of content hashes); mirrored here for the report
    rep.coverage["samples"] = res["samples"]
    for k in ("exhaustive_depth", "exhaustive_sequences", "observations", "sequences_reaching_error", "reference_automaton_disagreements", "notifications"):
        rep.coverage[k] = res[k]
    rep.coverage["exhaustive"] = True
    rep.coverage["rule"] = ("health observations: ALL 2^L success/failure sequences for L <= %d, plus (any 7 bits) fail^n (any 7 bits) for n = 15..26, plus runs of 9990..20001 identical observations through the "
                            "counters' saturation point followed by every suffix of length <= 8, driven through the real StatusState; judged by the statement's trace predicates (Error only with >= 20 trailing "
                            "failures and never directly after a success; one success leaves Error; two consecutive successes give Success); a reference automaton is compared for information. notifications: every "
                            "sequence over 3 keys x 3 values up to length 4 and runs of 1..1000 identical notifications through the real write_state_event (the crate's own MAX_STATE_COUNT), emission read back from the "
                            "log: emitted on first/changed value, and never twice within 120 repetitions of an unchanged value. non-trivial = sequence reaching Error or crossing 19/20/21 trailing failures, or a "
                            "notification run >= 120; distinct by content hash. monitor layer (sandboxed, aggregate status file at its production path): the real report_proxy_agent_aggregate_status / "
                            "extension_substatus / report_proxy_agent_service_status over every sequence of length <= 4 of {poll ok, poll missing, poll corrupt, poll version-mismatch, update ok, update failed, update "
                            "not launched}, failure runs of 17..23 mixed failures, and runs up to 300 polls; judged on the status written to the <seq>.status file (same hysteresis predicates) and on the notifications "
                            "found in the log, classified by subject (file readable / version matches): emitted on change, never twice within 120 repetitions. loop layer: the real service_main::run() (monitor "
                            "loop and heartbeat, started as the extension starts them) on a paused clock; a driver on the same runtime supplies one observation per 15 s iteration (incl. newly enabled sequence numbers) "
                            "and reads the <seq>.status file the platform would read; same hysteresis predicates") % res["exhaustive_depth"]
    for v in res["violations"]:
        rep.violation(v["signature"], v)
    from .. import sandbox
    mres = sandbox.run("vf.props.c20", "monitor_worker", {"exe": exe, "tier": tier}, timeout=3000)
    ev0 = rep.coverage["evaluations"]
    rep.merge_worker(mres)
    rep.coverage["evaluations"] = ev0 + mres.get("evaluations", 0)
    rep.merge_worker(sandbox.run("vf.props.c20", "loop_worker", {"exe": exe, "tier": tier}, timeout=3000))
    if tier == "thorough":
        from .. import miri
        mr = common.rng("c20-miri")
        corpus = [{"seq": "".join(mr.choice("01") for _ in range(mr.randrange(1, 40)))} for _ in range(300)] + [{"seq": "0" * n + "1" * k + "0" * 3} for n in (19, 20, 21, 25) for k in (1, 2)]
        miri.run({"status_state": corpus}, [], rep)
    rep.assumptions += ["exact transition timing beyond what the statement fixes (e.g. Error exactly at the 20th failure) is not required; disagreements with the reference automaton are reported, not judged"]

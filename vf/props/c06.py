"""C06 - Kernel hook redirects exactly the protected connects, records the true caller."""
import os, shutil, socket, struct, subprocess, tempfile, threading
from .. import common, shim as shimmod, standin, sandbox, realbpf

SIM = os.path.join(common.TARGET, "ebpf_sim")
TCP, UDP = 6, 17
AF_INET, AF_INET6 = 2, 10
LISTED = [("168.63.129.16", 80), ("169.254.169.254", 80), ("168.63.129.16", 32526)]
OTHERS = [("168.63.129.16", 443), ("169.254.169.254", 8080), ("10.0.0.4", 80), ("127.0.0.1", 3080), ("168.63.129.17", 80), ("169.254.169.253", 80), ("8.8.8.8", 53), ("168.63.129.16", 20480)]


def build_sim():
    src = os.path.join(common.VERIF, "ebpf_model", "sim.c")
    deps = [src, "/repo/linux-ebpf/ebpf_cgroup.c", "/repo/linux-ebpf/socket.h"] + [os.path.join(common.VERIF, "ebpf_model", "include", p) for p in ("model.h", "bpf/bpf_helpers.h", "bpf/bpf_tracing.h")]
    os.makedirs(common.TARGET, exist_ok=True)
    if os.path.exists(SIM) and all(os.path.getmtime(SIM) >= os.path.getmtime(d) for d in deps):
        return
    p = subprocess.run(["clang", "-g", "-O1", "-w", "-fsanitize=address,undefined", "-fno-sanitize-recover=all", "-fno-omit-frame-pointer",
                        "-I", os.path.join(common.VERIF, "ebpf_model", "include"), "-I/usr/include/x86_64-linux-gnu", "-o", SIM, src], stdout=subprocess.PIPE, stderr=subprocess.STDOUT)
    if p.returncode != 0:
        raise common.Inconclusive("ebpf_sim build failed: " + p.stdout.decode()[-2000:])


def rust_policy_bytes(sh, vdir, combos):
    """policy key/value bytes exactly as the Rust side produces them (hook H1), per endpoint on/off combination"""
    out = {}
    for combo in combos:
        shutil.rmtree(os.path.join(vdir, "policy"), ignore_errors=True)
        sh.call("update_policies", wireserver=combo[0], imds=combo[1], hostga=combo[2])
        ents = []
        d = os.path.join(vdir, "policy")
        for name in sorted(os.listdir(d)) if os.path.isdir(d) else []:
            ents.append((name, open(os.path.join(d, name), "rb").read().hex()))
        out[combo] = ents
    return out


def gen_world(r, policy_bytes):
    combo = r.choice(list(policy_bytes))
    listed = set()
    if combo[0]: listed.add(("168.63.129.16", 80))
    if combo[1]: listed.add(("169.254.169.254", 80))
    if combo[2]: listed.add(("168.63.129.16", 32526))
    agent_tgid = 4242
    tasks = []
    ntask = r.randrange(2, 9)
    tid = 5000
    for p in range(ntask):
        cls = r.choice(["uid!=gid", "uid!=gid", "root", "uid0-gid!=0", "gid0-uid!=0", "uid==gid", "agent", "wide-uid"])
        # wide-uid: ids that need more than 16 bits (user namespaces, directory services), among them multiples of 65536
        uid, gid = {"uid!=gid": (1000 + p, 2000 + p), "root": (0, 0), "uid0-gid!=0": (0, 50 + p), "gid0-uid!=0": (1000 + p, 0), "uid==gid": (1500 + p, 1500 + p), "agent": (0, 0),
                    "wide-uid": r.choice([(65536, 65536), (100000 + p, 100000), (524288, 1000 + p), (65536 * 3, 7), (4294967294, 4294967294), (70000 + p, 65536)])}[cls]
        tgid = agent_tgid if cls == "agent" else 6000 + p * 10
        for th in range(r.randrange(1, 4)):
            tid += 1
            tasks.append({"i": len(tasks), "tid": tid if th else tgid, "tgid": tgid, "uid": uid, "gid": gid, "cls": cls})
    wide = bool(listed) and r.random() < 0.04
    if wide:
        # many threads inside connect() at the same moment (a burst of 100-150 redirected connects between their two hook points): within the
        # capacity the program's maps have, every one of them still gets its record
        tasks = []
        for p in range(r.randrange(100, 151)):
            tasks.append({"i": p, "tid": 20000 + p, "tgid": 20000 + p - (p % 3), "uid": 1000 + p % 7, "gid": 3000 + p % 5, "cls": "uid!=gid"})
    script = ["skip %d" % agent_tgid]
    for t in tasks:
        script.append("task %d %d %d %d %d" % (t["i"], t["tid"], t["tgid"], t["uid"], t["gid"]))
    for k, v in policy_bytes[combo]:
        script.append("policy %s %s" % (k, v))
    script.append("dumppolicy")
    if wide:
        ports = r.sample(range(32768, 61000), len(tasks))
        conns, events = [], []
        dests = sorted(listed)
        for n, t in enumerate(tasks):
            c = {"n": n, "task": t, "dest": r.choice(dests), "proto": TCP, "family": AF_INET, "sport": ports[n], "outcome": "ok"}
            conns.append(c); events.append(("c4", c))
        order = list(conns); r.shuffle(order)
        events += [("tc", c) for c in order]
        return {"combo": combo, "listed": listed, "tasks": tasks, "conns": conns, "events": events, "script_head": script, "agent_tgid": agent_tgid, "wide": True}
    # connect attempts split into the two hook invocations and interleaved across threads
    nconn = r.randrange(10, 200)
    pending = []      # connects whose first hook has run, waiting for the second
    events = []       # ("c4", conn) / ("tc", conn)
    ports = r.sample(range(32768, 61000), nconn)
    for n in range(6, nconn):
        # source-port reuse: an earlier connection's record was never consumed (the agent was not accepting, the client went away) and a new
        # connection leaves from the same port: the record must describe the NEW connection
        if r.random() < 0.12:
            ports[n] = ports[r.randrange(n)]
    conns = []
    busy = set()      # a thread is inside connect() from its first hook to its second: it cannot start another connect
    for n in range(nconn):
        free = [t for t in tasks if t["i"] not in busy]
        while not free:
            j = r.randrange(len(pending)); c = pending.pop(j); events.append(("tc", c)); busy.discard(c["task"]["i"])
            free = [t for t in tasks if t["i"] not in busy]
        t = r.choice(free)
        dest = r.choice(LISTED) if r.random() < 0.55 else r.choice(OTHERS)
        proto = TCP if r.random() < 0.85 else UDP
        fam = AF_INET if r.random() < 0.93 else AF_INET6
        outcome = "ok" if r.random() < 0.93 else "fails-after-first-hook"
        c = {"n": n, "task": t, "dest": dest, "proto": proto, "family": fam, "sport": ports[n], "outcome": outcome}
        conns.append(c)
        if fam == AF_INET:
            events.append(("c4", c))   # the cgroup/connect4 hook only sees IPv4 sockets
        if proto == TCP and outcome == "ok":
            pending.append(c); busy.add(t["i"])
        while pending and r.random() < 0.45:
            j = r.randrange(len(pending)); c2 = pending.pop(j); events.append(("tc", c2)); busy.discard(c2["task"]["i"])
        if r.random() < 0.06:
            # a task that is not inside connect() changes its credentials (a daemon dropping privileges, a set-uid helper gaining them): later
            # connects are recorded with the credentials they are made with
            free2 = [t for t in tasks if t["i"] not in busy and t["tgid"] != agent_tgid]
            if free2:
                t2 = r.choice(free2)
                nu, ng = r.choice([(0, 0), (1001, 1001), (1002, 2000), (1003, 0), (0, 50)])
                events.append(("cred", {"task": t2, "uid": nu, "gid": ng}))
    for c in pending:
        events.append(("tc", c))
    return {"combo": combo, "listed": listed, "tasks": tasks, "conns": conns, "events": events, "script_head": script, "agent_tgid": agent_tgid}


def reference(world):
    """statement semantics: returns per connection (expected ctx after hook 1, expected audit record or None); plus a stale-pending marker"""
    exp = {}
    stale = {}   # thread i -> conn whose first hook left a pending record that was never consumed
    creds = {t["i"]: t["uid"] for t in world["tasks"]}
    for kind, c in world["events"]:
        t = c["task"]
        if kind == "cred":
            creds[t["i"]] = c["uid"]
            continue
        agent = t["tgid"] == world["agent_tgid"]
        redirect = c["family"] == AF_INET and c["proto"] == TCP and c["dest"] in world["listed"] and not agent
        if kind == "c4":
            exp[c["n"]] = {"ctx": ("127.0.0.1", 3080) if redirect else c["dest"], "record": None, "redirected": redirect, "tainted_by_stale": False, "uid": creds[t["i"]]}
            if redirect and c["outcome"] != "ok":
                stale[t["i"]] = c
            elif redirect:
                stale.pop(t["i"], None)   # the fresh pending entry overwrites any stale one for this thread
        else:
            e = exp.setdefault(c["n"], {"ctx": c["dest"], "record": None, "redirected": False, "tainted_by_stale": False})
            if e["redirected"]:
                e["record"] = {"uid": e["uid"], "pid": t["tgid"], "is_root": 1 if e["uid"] == 0 else 0, "ip": c["dest"][0], "port": c["dest"][1]}
            elif t["i"] in stale and not agent and c["family"] == AF_INET:
                e["tainted_by_stale"] = True
                stale.pop(t["i"], None)
    return exp


def run_world(world):
    lines = list(world["script_head"])
    for kind, c in world["events"]:
        if kind == "cred":
            lines.append("task %d %d %d %d %d" % (c["task"]["i"], c["task"]["tid"], c["task"]["tgid"], c["uid"], c["gid"]))
        elif kind == "c4":
            lines.append("connect4 %d %d %d %s %d" % (c["task"]["i"], c["family"], c["proto"], c["dest"][0], c["dest"][1]))
        else:
            e_redirect = c["family"] == AF_INET and c["proto"] == TCP and c["dest"] in world["listed"] and c["task"]["tgid"] != world["agent_tgid"]
            d = ("127.0.0.1", 3080) if e_redirect else c["dest"]
            lines.append("tcpconnect %d %d %d %s %d" % (c["task"]["i"], c["family"], c["sport"], d[0] if c["family"] == AF_INET else "0.0.0.0", d[1]))
    lines.append("dump")
    env = dict(os.environ, ASAN_OPTIONS="halt_on_error=1:abort_on_error=0:detect_leaks=0", UBSAN_OPTIONS="halt_on_error=1:print_stacktrace=1")
    p = subprocess.run([SIM], input=("\n".join(lines) + "\n").encode(), stdout=subprocess.PIPE, stderr=subprocess.PIPE, env=env, timeout=120)
    return lines, p


def parse_audit_value(hexv):
    b = bytes.fromhex(hexv)
    logon, pid, is_root = struct.unpack("<III", b[:12])
    ip = socket.inet_ntoa(b[12:16])
    port = struct.unpack(">H", b[16:18])[0]
    return {"uid": logon, "pid": pid, "is_root": is_root, "ip": ip, "port": port, "pad": b[18:20].hex()}


def ebpf_slice(tier, rep, keep, nworlds, kernel, label):
    """other properties whose guarantee starts in the eBPF program (who is elevated: C03; which record a source port carries: C07) run a
    slice of this engine and keep the verdicts that concern them (signature filter `keep`), prefixed with 'ebpf:'"""
    from .. import evidence
    sub = evidence.Report("C06", tier)
    try:
        run(tier, sub, nworlds=nworlds, kernel=kernel)
    except common.Inconclusive as e:
        rep.inconclusive.append("eBPF slice: %s" % e)
        return
    rep.coverage["evaluations"] += sub.coverage.get("evaluations", 0)
    rep.coverage["ebpf_slice"] = {"what": label, "model_worlds": nworlds, "real_kernel_section": bool(kernel) and not sub.coverage.get("kernel_section_skipped"),
                                  "records_expected": sub.coverage.get("records_expected", 0), "reused_source_ports": sub.coverage.get("reused_source_ports", 0),
                                  "kernel_connects": sub.coverage.get("kernel_connects_redirected", 0) + sub.coverage.get("kernel_connects_untouched", 0)}
    for sig, wit in sub.violations:
        if any(k in sig for k in keep):
            rep.violation("ebpf:" + sig, wit)
    for x in sub.inconclusive:
        rep.inconclusive.append("eBPF slice: %s" % x)


def run(tier, rep, nworlds=None, kernel=True):
    build_sim()
    rep.coverage["rule"] = ("user-space ASan+UBSan build of the unmodified linux-ebpf/ebpf_cgroup.c against a model of the documented helper/map semantics; each world = tasks (tid, tgid, uid, gid; uid!=gid, uid 0/gid!=0, gid 0/uid!=0, "
                            "multi-threaded, the agent's own pid in skip_process_map), policy_map loaded with the BYTES THE RUST SIDE PRODUCES (hook H1) for a random endpoint on/off combination, 10-200 connect attempts "
                            "(AF_INET/AF_INET6, TCP/UDP, listed and near-miss destinations, some failing after the first hook) split into the two hook invocations and interleaved across threads; oracle = Python reference of the "
                            "statement over the rewritten context and the audit map; then every raw audit value is injected through H1 and read back with the production decoders (lookup_audit) and must equal the simulated truth. "
                            "kernel section: the same C file compiled with clang -target bpf, loaded through the production BpfObject (aya), connect4 accepted by the kernel verifier and attached to a private cgroup; real processes "
                            "(uid/gid classes) connect() to listed/unlisted/UDP destinations, the rewritten peer address, the kernel's pending record and the policy map after run-time updates are compared with the reference. "
                            "non-trivial = world with a listed connect by a uid!=gid task and >=2 threads between the hooks; distinct by (credential classes, destination classes, interleaving shape)")
    nworlds = nworlds or (1200 if tier == "quick" else 20000)
    root = tempfile.mkdtemp(prefix="gpa-verif.", dir="/var/tmp")
    try:
        vdir = os.path.join(root, "standin")
        sh = shimmod.Shim(os.path.join(root, "shim"), runtime="multi:2", verif_dir=vdir)
        sh.call("init", log_dir=os.path.join(root, "logs"), log_level="Info")
        combos = [(a, b, c) for a in (True, False) for b in (True, False) for c in (True, False)]
        pol = rust_policy_bytes(sh, vdir, combos)
        lock = threading.Lock()
        decode_jobs = []

        def work(wi):
            r = common.rng("c06", tier, wi)
            world = gen_world(r, pol)
            exp = reference(world)
            lines, p = run_world(world)
            out = p.stdout.decode(errors="replace").splitlines()
            err = p.stderr.decode(errors="replace")
            with lock:
                rep.evaluated()
                wit_base = {"world": wi, "policy_combo": world["combo"], "script": lines if len(lines) < 60 else lines[:25] + ["..."] + lines[-25:]}
                if p.returncode != 0 or "ERROR: AddressSanitizer" in err or "runtime error" in err:
                    rep.violation("sanitizer-report-in-ebpf-program", dict(wit_base, stderr=err[-1500:]))
                    return
                for l in out:
                    if l.startswith("MODEL-ERROR"):
                        rep.violation("layout-mismatch-between-user-space-and-kernel-program", dict(wit_base, line=l))
                        return
                # policy map as loaded
                npol = [l for l in out if l.startswith("end policy_map")]
                if not npol or int(npol[0].split()[2]) != len(world["listed"]):
                    rep.violation("policy-keys-from-user-space-not-distinct-or-not-inserted", dict(wit_base, out=out[:8]))
                    return
                ctxs = [l for l in out if l.startswith("ctx ")]
                ci = 0
                for kind, c in world["events"]:
                    if kind != "c4":
                        continue
                    parts = ctxs[ci].split(); ci += 1
                    got = (parts[1], int(parts[2]))
                    e = exp[c["n"]]
                    rep.count("connects_first_hook")
                    if got != tuple(e["ctx"]):
                        sig = "listed-connect-not-redirected" if e["redirected"] else "unlisted-or-agent-connect-was-rewritten"
                        rep.violation(sig, dict(wit_base, conn={k: c[k] for k in ("n", "dest", "proto", "family", "sport")}, task=c["task"], got=got, expected=e["ctx"]))
                    rep.count("redirected" if e["redirected"] else "untouched")
                audit = {}
                for l in out:
                    if l.startswith("entry audit_map "):
                        _, _, k, v = l.split()
                        proto, sport = struct.unpack("<II", bytes.fromhex(k))
                        audit[(proto, sport)] = v
                # reused source ports: only the last connection (in second-hook order) that must leave a record is judged for that port
                tc_order = {c["n"]: i for i, (k, c) in enumerate(world["events"]) if k == "tc"}
                by_port = {}
                for c in world["conns"]:
                    by_port.setdefault(c["sport"], []).append(c)
                judged_for_port = {}
                for sp, cs in by_port.items():
                    if len(cs) > 1:
                        rec = [c for c in cs if exp.get(c["n"]) and exp[c["n"]]["record"] is not None and c["n"] in tc_order]
                        judged_for_port[sp] = max(rec, key=lambda c: tc_order[c["n"]])["n"] if rec else None
                        if any(exp.get(c["n"], {}).get("tainted_by_stale") for c in cs):
                            judged_for_port[sp] = None     # the recorded finding (stale pending entry) writes under this port too: not judged here
                        rep.count("reused_source_ports")
                for c in world["conns"]:
                    e = exp.get(c["n"])
                    if e is None:
                        continue
                    if c["sport"] in judged_for_port and judged_for_port[c["sport"]] != c["n"]:
                        continue
                    got = audit.get((TCP, c["sport"]))
                    cw = dict(wit_base, conn={k: c[k] for k in ("n", "dest", "proto", "family", "sport", "outcome")}, task=c["task"])
                    if e["record"] is not None:
                        rep.count("records_expected")
                        if got is None:
                            rep.violation("redirected-connect-left-no-record", cw); continue
                        g = parse_audit_value(got)
                        want = e["record"]
                        bad = [k for k in want if g[k] != want[k]]
                        if bad:
                            cls = "uid-taken-from-gid" if set(bad) <= {"uid", "is_root"} and g["uid"] == c["task"]["gid"] else ",".join(bad)
                            rep.violation("record-wrong:%s" % cls, dict(cw, got=g, expected=want))
                        else:
                            decode_jobs.append((c["sport"], got, want, wi))
                    elif e["tainted_by_stale"]:
                        rep.count("stale_pending_cases")
                        if got is not None:
                            rep.violation("stale-pending-entry-attributed-to-unrelated-connect", dict(cw, got=parse_audit_value(got)))
                    else:
                        if got is not None:
                            rep.violation("record-for-connect-that-must-not-have-one", dict(cw, got=parse_audit_value(got)))
                classes = sorted(set(c["task"]["cls"] for c in world["conns"] if c["dest"] in world["listed"]))
                shape = sum(1 for i, (k, c) in enumerate(world["events"]) if k == "tc" and i > 0 and world["events"][i - 1][1] is not c)
                if any(c["task"]["cls"] != "uid==gid" and c["task"]["cls"] != "root" and c["dest"] in world["listed"] for c in world["conns"]) and shape >= 2:
                    rep.nontrivial(common.sha([classes, world["combo"], min(shape, 50) // 5, len(world["conns"]) // 20]))
                rep.count("interleaved_second_hooks", shape)
                if wi < 2:
                    rep.sample({"tasks": world["tasks"][:4], "script": lines[:14], "output": out[:10]})
        threads = []
        idx = [0]

        def pump():
            while True:
                with lock:
                    wi = idx[0]; idx[0] += 1
                if wi >= nworlds:
                    return
                work(wi)
        ts = [threading.Thread(target=pump) for _ in range(14)]
        for t in ts: t.start()
        for t in ts: t.join()
        # decode loop: bytes the C program wrote -> production decoders on the Rust side
        r = common.rng("c06-decode", tier)
        r.shuffle(decode_jobs)
        for sport, hexv, want, wi in decode_jobs[: (600 if tier == "quick" else 6000)]:
            standin.inject(vdir, sport, 0, 0, 0, "0.0.0.0", 0, raw=bytes.fromhex(hexv))
            d = sh.call("lookup_audit", port=sport)
            sh.call("remove_audit", port=sport)
            rep.count("decode_roundtrips")
            got = {"uid": d.get("logon_id"), "pid": d.get("process_id"), "is_root": d.get("is_admin"), "ip": d.get("ip"), "port": d.get("port")}
            if got != want or d.get("ip_to_string") != want["ip"]:
                rep.violation("user-space-decoder-disagrees-with-kernel-layout", {"raw": hexv, "decoded": d, "truth": want, "world": wi})
        for ip in ["168.63.129.16", "169.254.169.254", "127.0.0.1", "10.0.0.4", "255.255.255.255", "0.0.0.1", "1.2.3.4"]:
            raw = struct.unpack("<I", socket.inet_aton(ip))[0]
            d = sh.call("ip_roundtrip", ip=raw)
            rep.count("ip_string_roundtrips")
            if d["text"] != ip or d["back"] != raw:
                rep.violation("ip-string-roundtrip", {"ip": ip, "got": d})
        for p in sh.panics():
            rep.violation("panic:%s" % p.get("location"), p)
        sh.close()
    finally:
        shutil.rmtree(root, ignore_errors=True)
    # ---- real-kernel section: the same unmodified C file compiled for the BPF target, loaded by the agent's own BpfObject,
    #      connect4 verified by the kernel and attached to a private cgroup, real connect() calls by real processes
    err = realbpf.build() if kernel else "not requested for this slice"
    if err:
        rep.coverage["kernel_section_skipped"] = 1
        rep.coverage["kernel_section_skip_reason"] = err[:300]
    else:
        kres = sandbox.run("vf.props.kernelsec", "c06_worker", {"tier": tier, "rounds": 4 if tier == "quick" else 12, "connects": 30 if tier == "quick" else 80}, timeout=900 if tier == "quick" else 5400, pidns=False)
        if kres.get("skip_reason"):
            rep.coverage["kernel_section_skip_reason"] = kres["skip_reason"][:300]
        kres.pop("inconclusive", None) if kres.get("skip_reason") else None
        rep.merge_worker(kres)
    rep.coverage["sanitizer_reports"] = sum(1 for s, _ in rep.violations if s.startswith("sanitizer"))
    rep.assumptions += ["model section: the helper/map semantics are those documented in bpf-helpers(7)/linux/bpf.h. kernel section: both programs are loaded through the running kernel's verifier and connect4 runs attached to a private cgroup; the kprobe program cannot be ATTACHED (no kprobes in this kernel), so its struct sock_common reads against a live socket are exercised only in the model",
                        "a thread is inside one connect() at a time (it cannot start another connect between its two hook points)"]

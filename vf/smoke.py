import time
from . import wproxy, rawhttp, standin

def worker(args, scratch):
    w = wproxy.World(scratch)
    try:
        ident = w.identity("root", "helper", ["a", "b"])
        alice = w.identity("alice", "tool", ["x"])
        out = {}
        t0=time.time()
        for name, who in (("wireserver", ident), ("imds", alice), ("wireserver", alice), ("self", ident), ("other", alice)):
            c = w.open(name, who)
            c.send(rawhttp.build_request("GET", "/a/b?x=1", [("x-vf-id", "t-%s-%s" % (name, who.user))]))
            r = c.read_response()
            out["%s-%s" % (name, who.user)] = [r.status, r.body.decode(), [(k.decode(), v.decode()) for k, v in r.headers]]
            c.close()
        c = w.open(record=False)
        c.send(rawhttp.build_request("GET", "/direct", []))
        out["direct"] = c.read_response().status
        out["dt"]=time.time()-t0
        out["ws_reqs"] = [r.raw_head.decode() for r in w.mocks["wireserver"].snapshot()]
        out["events"] = standin.events(w.vdir)[:6]
        out["summ"] = w.shim.call("summaries")
        out["panics"] = w.shim.panics()
        return out
    finally:
        w.close()

import os, time, threading, glob
from . import wproxy, rawhttp

def worker(args, scratch):
    w = wproxy.World(scratch, runtime="multi:8", log_level="Trace")
    out = {"bad": [], "n": 0}
    try:
        root = w.identity("root", "helper", [])
        stop = False
        def burn():
            while not stop:
                sum(i*i for i in range(10000))
        bs = [threading.Thread(target=burn, daemon=True) for _ in range(24)]
        for b in bs: b.start()
        def client(ci):
            for k in range(150):
                c = w.open("wireserver", root)
                reqs = [rawhttp.build_request("GET", "/p/%d/%d/%d" % (ci, k, j), [("x-vf-id", "e-%d-%d-%d" % (ci, k, j))]) for j in range(3)]
                c.send(b"".join(reqs))
                for j in range(3):
                    r = c.read_response()
                    out["n"] += 1
                    if r.status != 200:
                        out["bad"].append((ci, k, j, r.status))
                c.close()
        ts = [threading.Thread(target=client, args=(i,)) for i in range(8)]
        for t in ts: t.start()
        for t in ts: t.join()
        stop = True
        time.sleep(0.3)
        logs = []
        for f in glob.glob("/var/log/azure-proxy-agent/ProxyAgent.Connection*.log"):
            for line in open(f, errors="replace"):
                if "Failed to send" in line or "not ready" in line or "errorDetails\":\"F" in line:
                    logs.append(line.strip()[:400])
        out["logs"] = logs[:6]
        out["bad"] = out["bad"][:10]
    finally:
        w.close()
    return out

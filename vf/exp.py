import os, time, threading, glob, subprocess, sys
from . import wproxy, rawhttp

def worker(args, scratch):
    big = {}
    def handler(name, req):
        vid = (req.header("x-vf-id") or b"").decode()
        if vid.endswith("-0"):
            return {"status": 200, "body": b"x" * args["size"], "segments": [args["seg"]] * 400 if args.get("seg") else None}
        return {"status": 200, "body": b"ok"}
    w = wproxy.World(scratch, runtime="multi:%d" % args["workers"], log_level="Info", handler=handler)
    out = {"bad": 0, "n": 0}
    try:
        root = w.identity("root", "helper", [])
        lock = threading.Lock()
        def client(ci):
            for k in range(args["conns"]):
                c = w.open("other", root)
                for rep in range(4):
                    reqs = [rawhttp.build_request("GET", "/p/%d/%d/%d" % (ci, k, j), [("x-vf-id", "e-%d-%d-%d-%d" % (ci, k, rep, j))]) for j in range(2)]
                    c.send(b"".join(reqs))
                    for j in range(2):
                        r = c.read_response()
                        with lock:
                            out["n"] += 1
                            if r.status != 200:
                                out["bad"] += 1
                c.close()
        t0 = time.time()
        ts = [threading.Thread(target=client, args=(i,)) for i in range(args["threads"])]
        for t in ts: t.start()
        for t in ts: t.join()
        out["dt"] = time.time() - t0
    finally:
        w.close()
    return out

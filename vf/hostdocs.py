"""Documents the mock hosts serve to the agent's own clients (shapes taken from the public wire formats)."""
import json

SHARED_CONFIG_URL = "http://168.63.129.16:80/machine/374188df-b0a2-456a-a7b2-83f28b18d36f/7d27.TenantAdminApi.Worker%5FIN%5F0?comp=config&type=sharedConfig&incarnation=16"

GOAL_STATE = """<?xml version="1.0" encoding="utf-8"?>
<GoalState xmlns:xsi="http://www.w3.org/2001/XMLSchema-instance" xsi:noNamespaceSchemaLocation="goalstate10.xsd">
  <Version>2015-04-05</Version>
  <Incarnation>16</Incarnation>
  <Machine>
    <ExpectedState>Started</ExpectedState>
    <StopRolesDeadlineHint>300000</StopRolesDeadlineHint>
    <LBProbePorts><Port>16001</Port></LBProbePorts>
    <ExpectHealthReport>TRUE</ExpectHealthReport>
    <Package>http://168.63.129.16:80/machine/?comp=package&amp;incarnation=x.zip</Package>
    <PackageIncarnation>x.zip</PackageIncarnation>
  </Machine>
  <Container>
    <ContainerId>374188df-b0a2-456a-a7b2-83f28b18d36f</ContainerId>
    <RoleInstanceList>
      <RoleInstance>
        <InstanceId>7d27.TenantAdminApi.Worker_IN_0</InstanceId>
        <State>Started</State>
        <Configuration>
          <HostingEnvironmentConfig>http://168.63.129.16:80/machine/x?comp=config&amp;type=hostingEnvironmentConfig&amp;incarnation=16</HostingEnvironmentConfig>
          <SharedConfig>%s</SharedConfig>
          <ExtensionsConfig>http://168.63.129.16:80/machine/x?comp=config&amp;type=extensionsConfig&amp;incarnation=16</ExtensionsConfig>
          <FullConfig>http://168.63.129.16:80/machine/x?comp=config&amp;type=fullConfig&amp;incarnation=16</FullConfig>
          <Certificates>http://168.63.129.16:80/machine/x?comp=certificates&amp;incarnation=16</Certificates>
          <ConfigName>x.1.xml</ConfigName>
        </Configuration>
      </RoleInstance>
    </RoleInstanceList>
  </Container>
</GoalState>""" % SHARED_CONFIG_URL.replace("&", "&amp;")

SHARED_CONFIG = """<?xml version="1.0" encoding="utf-8"?>
<SharedConfig version="1.0.0.0" goalStateIncarnation="16">
  <Deployment name="7d2798bb72a0413d9a60b355277df726" guid="{25a2c1a1-2986-4d1c-bd37-6abe8571218d}" incarnation="132" isNonCancellableTopologyChangeEnabled="false">
    <Service name="TenantAdminApi.Cloud" guid="{00000000-0000-0000-0000-000000000000}" />
    <ServiceInstance name="7d2798bb72a0413d9a60b355277df726.78" guid="{2733116f-69db-411d-91a0-a1f55849ba23}" />
  </Deployment>
  <Incarnation number="1" instance="TenantAdminApi.Worker_IN_0" guid="{b0b40fde-461e-461b-a451-af58347321a9}" />
  <Role guid="{953935f8-9317-74e0-4236-7854486dd013}" name="TenantAdminApi.Worker" settleTimeSeconds="0" />
  <LoadBalancerSettings timeoutSeconds="32" waitLoadBalancerProbeCount="8"><Probes><Probe name="DataAPI.Worker" /></Probes></LoadBalancerSettings>
  <OutputEndpoints />
  <Instances>
    <Instance id="TenantAdminApi.Worker_IN_0" address="10.1.64.6">
      <FaultDomains randomId="0" updateId="0" updateCount="1" />
      <InputEndpoints />
    </Instance>
  </Instances>
</SharedConfig>"""

IMDS_INSTANCE = json.dumps({"compute": {"location": "westus", "name": "vm1", "resourceGroupName": "rg1",
                                        "subscriptionId": "xxxxxxxx-xxxx-xxxx-xxxx-xxxxxxxxxxx", "vmId": "02aab8a4-74ef-476e-8182-f6d2ba4166a6",
                                        "vmSize": "Standard_A3", "offer": "UbuntuServer"}})


def own_calls_handler(name, req):
    """answers the agent's own host calls (goal state, shared config, instance metadata, telemetry)"""
    t = req.target
    if name == "wireserver":
        if t.startswith(b"/machine?comp=goalstate"):
            return {"status": 200, "headers": [("Content-Type", "text/xml; charset=utf-8")], "body": GOAL_STATE.encode()}
        if b"type=sharedConfig" in t:
            return {"status": 200, "headers": [("Content-Type", "text/xml; charset=utf-8")], "body": SHARED_CONFIG.encode()}
        if t.lower().startswith(b"/machine/?comp=telemetrydata"):
            return {"status": 200, "body": b""}
    if name == "imds" and t.startswith(b"/metadata/instance"):
        return {"status": 200, "headers": [("Content-Type", "application/json; charset=utf-8")], "body": IMDS_INSTANCE.encode()}
    return None

"""Generators for HTTP requests used by the W-proxy properties."""
import string

METHODS = ["GET", "POST", "PUT", "DELETE", "PATCH", "OPTIONS"]
HNAMES = ["x-a", "X-B", "Accept", "x-ms-version", "User-Agent", "X-Custom-Header", "cache-control", "Metadata", "x-ms-azure-host-region", "X-Ms-Azure-Host-Claims-Version", "x-ms-azure-hostname", "x-ms-azure-host-datetime", "x-ms-azure-host",
          # credentials of the client's own (names that END like the proxy-owned authorization header)
          "Authorization", "Proxy-Authorization", "x-authorization"]
TOK = string.ascii_letters + string.digits + "-_.~"


def token(r, n):
    return "".join(r.choice(TOK) for _ in range(n))


def headers(r, n=None):
    n = r.randrange(0, 6) if n is None else n
    out = []
    used = set()
    for _ in range(n):
        k = r.choice(HNAMES)
        if k.lower() in used:
            continue
        used.add(k.lower())
        v = token(r, r.randrange(0, 20))
        if r.random() < 0.2:
            v = " " + v + "  "
        out.append((k, v))
    return out


def body(r, maxlen=2000, binary=True):
    n = r.choice([0, 0, 1, 7, r.randrange(0, maxlen)])
    if binary and r.random() < 0.5:
        return bytes(r.getrandbits(8) for _ in range(n))
    return "".join(r.choice(TOK + "\n <>&") for _ in range(n)).encode()

"""Evidence files, replay files, known findings, verdict printing."""
import json, os, sys, time
from . import common


def load_known():
    p = os.path.join(common.VERIF, "known_findings.json")
    try:
        with open(p) as f:
            return json.load(f)
    except FileNotFoundError:
        return {"findings": [], "fixed": []}


class Report:
    """Collects violations / observations of one check run and produces the verdict."""

    def __init__(self, prop, tier, level="exploration"):
        self.prop, self.tier, self.level = prop, tier, level
        self.t0 = time.time()
        self.violations = []  # (signature, witness dict)
        self.coverage = {"evaluations": 0, "distinct_nontrivial": 0, "rule": "", "samples": []}
        self.assumptions = []
        self.inconclusive = []
        self._nontrivial = set()

    def evaluated(self, n=1):
        self.coverage["evaluations"] += n

    def nontrivial(self, key):
        self._nontrivial.add(key if isinstance(key, str) else common.sha(key))

    def sample(self, case, limit=5):
        if len(self.coverage["samples"]) < limit:
            self.coverage["samples"].append(case)

    def count(self, key, n=1):
        self.coverage[key] = self.coverage.get(key, 0) + n

    def violation(self, signature, witness):
        """signature: short stable string naming site + witness class (used for known-findings matching)."""
        self.violations.append((signature, witness))

    def merge_worker(self, res):
        """res: dict produced by a sandboxed worker: evaluations, nontrivial (list of hashes), samples,
        counts (dict), violations (list of [sig, witness]), inconclusive (list)"""
        self.coverage["evaluations"] += res.get("evaluations", 0)
        for h in res.get("nontrivial", []):
            self._nontrivial.add(h)
        for smp in res.get("samples", []):
            self.sample(smp)
        for k, v in res.get("counts", {}).items():
            if isinstance(v, (int, float)):
                self.count(k, v)
            elif isinstance(v, list):
                cur = self.coverage.setdefault(k, [])
                for x in v:
                    if x not in cur and len(cur) < 200:
                        cur.append(x)
            elif isinstance(v, dict):
                cur = self.coverage.setdefault(k, {})
                for kk, vv in v.items():
                    cur[kk] = cur.get(kk, 0) + vv
        for sig, wit in res.get("violations", []):
            self.violation(sig, wit)
        for r in res.get("inconclusive", []):
            self.inconclusive.append(r)

    def finish(self):
        """writes evidence, prints verdict lines, returns exit code"""
        self.coverage["distinct_nontrivial"] = len(self._nontrivial)
        known = load_known()
        listed = [f for f in known.get("findings", []) if f.get("property") == self.prop]
        new, seen_known = [], {}
        for sig, wit in self.violations:
            hit = None
            for f in listed:
                if f["signature"] == sig:
                    hit = f
                    break
            if hit:
                seen_known.setdefault(sig, hit)
            else:
                new.append((sig, wit))
        os.makedirs(common.REPLAYS, exist_ok=True)
        os.makedirs(common.EVIDENCE, exist_ok=True)
        code = 0
        for sig, f in seen_known.items():
            print("KNOWN-FINDING: property=%s %s" % (self.prop, f.get("what", sig)))
        reported = set()
        for sig, wit in new:
            if sig in reported:
                continue
            reported.add(sig)
            path = os.path.join(common.REPLAYS, "%s-%s.json" % (self.prop, common.sha([sig, wit])))
            with open(path, "w") as fh:
                json.dump({"property": self.prop, "signature": sig, "seed": common.seed(), "tier": self.tier, "witness": wit}, fh, indent=1, default=str)
            print("VIOLATION property=%s replay=%s" % (self.prop, path))
            print("  signature: %s" % sig)
            code = 1
        if code == 0 and self.inconclusive:
            for r in self.inconclusive[:5]:
                print("INCONCLUSIVE property=%s reason=%s" % (self.prop, r))
            code = 2
        if code == 0 and (self.coverage["evaluations"] < 1 or self.coverage["distinct_nontrivial"] < 2):
            print("INCONCLUSIVE property=%s reason=observed too little (evaluations=%d distinct_nontrivial=%d)" % (
                self.prop, self.coverage["evaluations"], self.coverage["distinct_nontrivial"]))
            code = 2
        ev = {
            "property_id": self.prop,
            "tier": self.tier,
            "seed": common.seed(),
            "level": self.level,
            "coverage": self.coverage,
            "assumptions": self.assumptions,
            "wall_s": round(time.time() - self.t0, 2),
            "violations": len(new),
            "known_findings_seen": sorted(seen_known.keys()),
            "verdict": {0: "held on what was observed", 1: "violated", 2: "inconclusive"}[code],
        }
        with open(os.path.join(common.EVIDENCE, "%s.json" % self.prop), "w") as fh:
            json.dump(ev, fh, indent=1, default=str)
        if code == 0:
            print("OK property=%s tier=%s seed=%d evaluations=%d distinct_nontrivial=%d wall=%.1fs" % (
                self.prop, self.tier, common.seed(), self.coverage["evaluations"], self.coverage["distinct_nontrivial"], ev["wall_s"]))
        return code

"""Raw-socket HTTP/1.1 client and message parsing (no http library). Used by drivers and mocks."""
import socket, struct, time


class ParseError(Exception):
    pass


def recv_until(sock, buf, marker, limit=1 << 22):
    while marker not in buf:
        d = sock.recv(65536)
        if not d:
            return buf, False
        buf += d
        if len(buf) > limit:
            raise ParseError("header too large")
    return buf, True


def parse_head(head):
    """head: bytes up to (excluding) CRLFCRLF -> (start_line: bytes, headers: list[(name bytes, value bytes)])"""
    lines = head.split(b"\r\n")
    start = lines[0]
    headers = []
    for ln in lines[1:]:
        if not ln:
            continue
        if b":" not in ln:
            raise ParseError("bad header line %r" % ln)
        k, v = ln.split(b":", 1)
        headers.append((k, v.strip(b" \t")))
    return start, headers


def hget(headers, name):
    name = name.lower()
    return [v for k, v in headers if k.lower() == name]


def read_body(sock, buf, headers, is_response=False, method=None, status=None):
    """returns (body, rest, framing, chunk_sizes). framing in {'none','cl','chunked','close'}"""
    te = b",".join(hget(headers, b"transfer-encoding")).lower()
    cl = hget(headers, b"content-length")
    if is_response and (method == b"HEAD" or status in (204, 304) or (status is not None and 100 <= status < 200)):
        return b"", buf, "none", []
    if b"chunked" in te:
        body = b""
        sizes = []
        while True:
            buf, ok = recv_until(sock, buf, b"\r\n")
            if not ok:
                raise ParseError("eof in chunk size")
            line, buf = buf.split(b"\r\n", 1)
            try:
                n = int(line.split(b";")[0].strip(), 16)
            except ValueError:
                raise ParseError("bad chunk size %r" % line)
            if n == 0:
                # trailers until blank line
                while True:
                    buf, ok = recv_until(sock, buf, b"\r\n")
                    if not ok:
                        raise ParseError("eof in trailers")
                    line, buf = buf.split(b"\r\n", 1)
                    if not line:
                        break
                return body, buf, "chunked", sizes
            while len(buf) < n + 2:
                d = sock.recv(1 << 20)
                if not d:
                    raise ParseError("eof in chunk data")
                buf += d
            body += buf[:n]
            sizes.append(n)
            buf = buf[n + 2:]
    if cl:
        n = int(cl[0])
        while len(buf) < n:
            d = sock.recv(1 << 20)
            if not d:
                raise ParseError("eof in body (%d of %d)" % (len(buf), n))
            buf += d
        return buf[:n], buf[n:], "cl", []
    if is_response:
        while True:
            d = sock.recv(1 << 20)
            if not d:
                break
            buf += d
        return buf, b"", "close", []
    return b"", buf, "none", []


class Response:
    def __init__(self):
        self.status = None
        self.reason = b""
        self.headers = []
        self.body = b""
        self.framing = ""
        self.raw_head = b""
        self.t_done = 0

    def header(self, name):
        v = hget(self.headers, name.encode() if isinstance(name, str) else name)
        return v[0] if v else None


class Conn:
    """client connection with explicit source port, abortive close, arbitrary segmentation"""

    def __init__(self, host="127.0.0.1", port=3080, src_port=0, src_ip="127.0.0.1", timeout=60, connect=True):
        self.s = socket.socket(socket.AF_INET, socket.SOCK_STREAM)
        self.s.setsockopt(socket.SOL_SOCKET, socket.SO_REUSEADDR, 1)
        self.s.setsockopt(socket.IPPROTO_TCP, socket.TCP_NODELAY, 1)
        self.s.bind((src_ip, src_port))
        self.src_port = self.s.getsockname()[1]
        self.s.settimeout(timeout)
        self.buf = b""
        self.dest = (host, port)
        if connect:
            self.s.connect(self.dest)

    def connect(self):
        self.s.connect(self.dest)

    def send(self, data, segments=None, gap=0.0):
        if not segments:
            self.s.sendall(data)
            return
        pos = 0
        for n in segments:
            if pos >= len(data):
                break
            self.s.sendall(data[pos:pos + n])
            pos += n
            if gap:
                time.sleep(gap)
        if pos < len(data):
            self.s.sendall(data[pos:])

    def read_response(self, method=b"GET"):
        r = Response()
        while True:
            self.buf, ok = recv_until(self.s, self.buf, b"\r\n\r\n")
            if not ok:
                raise ParseError("eof before response head (got %r)" % self.buf[:80])
            head, self.buf = self.buf.split(b"\r\n\r\n", 1)
            r.raw_head = head
            start, r.headers = parse_head(head)
            parts = start.split(b" ", 2)
            r.status = int(parts[1])
            if 100 <= r.status < 200 and r.status != 101:
                self.interim = getattr(self, "interim", 0) + 1     # interim response (100 Continue): the final one follows
                continue
            break
        r.reason = parts[2] if len(parts) > 2 else b""
        r.body, self.buf, r.framing, r.chunks = read_body(self.s, self.buf, r.headers, True, method, r.status)
        r.t_done = time.monotonic_ns()
        return r

    def close(self, abort=True):
        try:
            if abort:
                self.s.setsockopt(socket.SOL_SOCKET, socket.SO_LINGER, struct.pack("ii", 1, 0))
            self.s.close()
        except OSError:
            pass


def build_request(method, target, headers, body=b"", chunked=None, host="x"):
    """headers: list[(str|bytes, str|bytes)]. chunked: list of chunk sizes -> transfer-encoding: chunked"""
    def b(x):
        return x if isinstance(x, bytes) else x.encode("latin-1")
    out = b(method) + b" " + b(target) + b" HTTP/1.1\r\n"
    names = [b(k).lower() for k, _ in headers]
    if b"host" not in names:
        out += b"Host: " + b(host) + b"\r\n"
    for k, v in headers:
        out += b(k) + b": " + b(v) + b"\r\n"
    if chunked is not None:
        out += b"Transfer-Encoding: chunked\r\n\r\n"
        pos = 0
        for n in chunked:
            if n <= 0 or pos >= len(body):
                continue
            part = body[pos:pos + n]
            pos += len(part)
            out += b"%x\r\n" % len(part) + part + b"\r\n"
        if pos < len(body):
            part = body[pos:]
            out += b"%x\r\n" % len(part) + part + b"\r\n"
        out += b"0\r\n\r\n"
    else:
        if body or b(method) in (b"POST", b"PUT", b"PATCH") and b"content-length" not in names:
            if b"content-length" not in names:
                out += b"Content-Length: %d\r\n" % len(body)
        out += b"\r\n" + body
    return out

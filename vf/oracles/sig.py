"""Independent canonicaliser + HMAC for the 'Azure-HMAC-SHA256 <guid> <mac>' signature (C04, C10).

StringToSign = Method LF Body LF {lower(name):trim(value) LF for every header except the authorization header, sorted by name}
               Path LF Params
Params = query pairs (lower(key), value), '&'-joined, a pair with empty value printed as the bare key.
The order of pairs is not fixed by the statement: two readings are accepted, sorting by (key, value) and sorting by the
concatenation key+value (they differ only when one key is a proper prefix of another); exact duplicate pairs may appear once
or as often as received. Repeated header names: accepted if the MAC verifies under any of {last value, first value, values
joined by ',' / ', ', one line per value}. Each use of a leniency is reported so that it can be counted as 'ambiguous'.
"""
import hashlib, hmac, itertools, re

AUTH = b"x-ms-azure-host-authorization"
AUTH_RE = re.compile(rb"^Azure-HMAC-SHA256 ([^ ]{1,64}) ([0-9a-f]{64})$")     # the key id is whatever the host called the key


def query_pairs(target):
    if b"?" not in target:
        return []
    q = target.split(b"?", 1)[1]
    out = []
    for part in q.split(b"&"):
        if b"=" in part:
            k, v = part.split(b"=", 1)
        else:
            k, v = part, b""
        if k == b"":
            continue
        out.append((k.lower(), v))
    return out


def render_pairs(pairs):
    return b"&".join(k if v == b"" else k + b"=" + v for k, v in pairs)


def param_variants(target):
    pairs = query_pairs(target)
    variants = []
    for dedupe in (False, True):
        ps = pairs
        if dedupe:
            seen, ps = set(), []
            for p in pairs:
                if p not in seen:
                    seen.add(p)
                    ps.append(p)
        variants.append(("tuple" + ("-dedup" if dedupe else ""), render_pairs(sorted(ps))))
        variants.append(("concat" + ("-dedup" if dedupe else ""), render_pairs(sorted(ps, key=lambda kv: (kv[0] + kv[1], kv[0])))))
    out, seen = [], set()
    for name, v in variants:
        if v not in seen:
            seen.add(v)
            out.append((name, v))
    return out


def header_variants(headers):
    """headers: list[(name bytes, value bytes)] as received. returns list of (label, canonical header block)"""
    groups = {}
    for k, v in headers:
        lk = k.lower()
        if lk == AUTH:
            continue
        groups.setdefault(lk, []).append(v.strip(b" \t"))
    names = sorted(groups)
    multi = [n for n in names if len(groups[n]) > 1]
    if not multi:
        return [("plain", b"".join(n + b":" + groups[n][0] + b"\n" for n in names))]
    out = []
    for label, f in (("last", lambda vs: [vs[-1]]), ("first", lambda vs: [vs[0]]), ("join,", lambda vs: [b",".join(vs)]),
                     ("join, ", lambda vs: [b", ".join(vs)]), ("each", lambda vs: vs)):
        block = b""
        for n in names:
            for v in (f(groups[n]) if len(groups[n]) > 1 else groups[n]):
                block += n + b":" + v + b"\n"
        out.append(("repeated-" + label, block))
    return out


def path_of(target):
    return target.split(b"?", 1)[0]


def strings_to_sign(method, target, headers, body):
    for (pl, params), (hl, hblock) in itertools.product(param_variants(target), header_variants(headers)):
        yield (pl, hl), method + b"\n" + body + b"\n" + hblock + path_of(target) + b"\n" + params


def mac(key_hex, data):
    return hmac.new(bytes.fromhex(key_hex), data, hashlib.sha256).hexdigest().encode()


def verify(req, keys):
    """req: mockhost.Req; keys: dict guid(str, lower) -> hex secret.
    returns (verdict, detail): verdict in {'ok', 'ok-lenient', 'unsigned', 'bad-format', 'unknown-key', 'mismatch', 'multiple'}"""
    auths = [v for k, v in req.headers if k.lower() == AUTH]
    if not auths:
        return "unsigned", None
    if len(auths) > 1:
        return "multiple", auths
    m = AUTH_RE.match(auths[0])
    if not m:
        return "bad-format", auths[0]
    guid, got = m.group(1).decode().lower(), m.group(2)
    if guid not in keys:
        return "unknown-key", guid
    first = True
    for labels, s in strings_to_sign(req.method, req.target, req.headers, req.body):
        if mac(keys[guid], s) == got:
            return ("ok" if first else "ok-lenient"), (guid, labels)
        first = False
    return "mismatch", (guid, got.decode())


def find_key(req, keys):
    """for a mismatch: does the MAC verify under another known key? returns that guid or None"""
    auths = [v for k, v in req.headers if k.lower() == AUTH]
    m = AUTH_RE.match(auths[0]) if auths else None
    if not m:
        return None
    got = m.group(2)
    for guid, secret in keys.items():
        for labels, s in strings_to_sign(req.method, req.target, req.headers, req.body):
            if mac(secret, s) == got:
                return guid
    return None


def is_exempt(method, target):
    t = target.lower()
    return (method == b"PUT" and t == b"/vmagentlog") or (method == b"POST" and t == b"/machine/?comp=telemetrydata")

"""Reference RBAC semantics written from the statement of C02 (independent of the Rust code).

decide(doc, claims, url) -> (decision: bool | None, info)
  None = not conclusive under the stated leniencies (duplicate names in the document,
  duplicate query keys in the URL whose readings disagree, unknown mode).
"""


def split_url(url):
    if "?" in url:
        path, q = url.split("?", 1)
    else:
        path, q = url, ""
    if "#" in q:
        q = q.split("#", 1)[0]
    pairs = []
    for part in q.split("&"):
        if not part:
            continue
        if "=" in part:
            k, v = part.split("=", 1)
        else:
            k, v = part, ""
        if k == "":
            continue
        pairs.append((k, v))
    return path, pairs


def has_duplicate_names(doc):
    r = doc.get("rules") or {}
    for sec in ("privileges", "roles", "identities"):
        names = [x.get("name") for x in (r.get(sec) or [])]
        if len(names) != len(set(names)):
            return True
    return False


def priv_matches(priv, path, pairs, reading):
    if not path.lower().startswith((priv.get("path") or "").lower()):
        return False
    qp = priv.get("queryParameters")
    if qp:
        for k, v in qp.items():
            vals = [pv for pk, pv in pairs if pk.lower() == k.lower()]
            if not vals:
                return False
            if reading == "first":
                if vals[0].lower() != v.lower():
                    return False
            else:  # any
                if not any(x.lower() == v.lower() for x in vals):
                    return False
    return True


def identity_matches(ident, claims):
    if ident.get("userName") is not None and ident["userName"] != claims.get("userName"):
        return False
    if ident.get("processName") is not None and ident["processName"] != claims.get("processName"):
        return False
    if ident.get("exePath") is not None and ident["exePath"] != claims.get("processFullPath"):
        return False
    if ident.get("groupName") is not None and ident["groupName"] not in (claims.get("userGroups") or []):
        return False
    return True


def _decide(doc, claims, url, reading):
    mode = (doc.get("mode") or "").lower()
    if mode == "disabled":
        return True, "disabled"
    if mode not in ("audit", "enforce"):
        return None, "unknown-mode"
    default = (doc.get("defaultAccess") or "").lower() == "allow"
    r = doc.get("rules") or {}
    secs = [r.get("privileges"), r.get("roles"), r.get("identities"), r.get("roleAssignments")]
    if any(s is None for s in secs):
        return default, "no-rules"
    privileges, roles, identities, assignments = secs
    path, pairs = split_url(url)
    roles_by = {x["name"]: x for x in roles}
    ident_by = {x["name"]: x for x in identities}
    matched_any = False
    for p in privileges:
        if not priv_matches(p, path, pairs, reading):
            continue
        matched_any = True
        for ra in assignments:
            role = roles_by.get(ra.get("role"))
            if role is None or p["name"] not in (role.get("privileges") or []):
                continue
            for iname in ra.get("identities") or []:
                ident = ident_by.get(iname)
                if ident is not None and identity_matches(ident, claims):
                    return True, "granted"
    if matched_any:
        return False, "matched-not-granted"
    return default, "default"


def decide(doc, claims, url):
    if has_duplicate_names(doc):
        return None, "duplicate-names"
    a, ia = _decide(doc, claims, url, "first")
    b, ib = _decide(doc, claims, url, "any")
    if a is None or b is None:
        return None, ia
    if a != b:
        return None, "duplicate-query-keys"
    return a, ia


def any_privilege_path_matches(doc, url):
    r = doc.get("rules") or {}
    path, _ = split_url(url)
    return any(path.lower().startswith((p.get("path") or "").lower()) for p in (r.get("privileges") or []))

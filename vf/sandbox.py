"""Runs a worker function in a private net + mount + pid namespace.

Inside: lo is up with 168.63.129.16, 169.254.169.254 and 127.0.0.2 added; /etc is an overlay
(so /etc/azure/proxy-agent.json, /etc/passwd, /etc/group can be crafted); /var/log and /var/lib are
private tmpfs; /dev/console is a regular file under the scratch directory.  Scratch directories
live under /var/tmp/gpa-verif.* and are removed afterwards.
"""
import importlib, json, os, shutil, subprocess, sys, tempfile, traceback, concurrent.futures
from . import common

SCRATCH_ROOT = "/var/tmp"


def _sh(cmd):
    subprocess.run(cmd, shell=True, check=True, stdout=subprocess.DEVNULL, stderr=subprocess.PIPE)


def setup_inside(scratch):
    _sh("mount --make-rprivate /")
    os.makedirs(scratch + "/etc_up", exist_ok=True)
    os.makedirs(scratch + "/etc_work", exist_ok=True)
    _sh("mount -t overlay overlay -o lowerdir=/etc,upperdir=%s/etc_up,workdir=%s/etc_work /etc" % (scratch, scratch))
    _sh("mount -t tmpfs tmpfs /var/log")
    _sh("mount -t tmpfs tmpfs /var/lib")
    os.makedirs("/etc/azure", exist_ok=True)
    with open("/etc/azure/proxy-agent.json", "w") as f:
        json.dump(common.default_config(), f)
    open(scratch + "/console", "w").close()
    _sh("mount --bind %s/console /dev/console" % scratch)
    _sh("ip link set lo up")
    for a in ("168.63.129.16/32", "169.254.169.254/32", "127.0.0.2/8"):
        _sh("ip addr add %s dev lo" % a)
    os.chmod(scratch, 0o755)


def _inside_main():
    scratch = sys.argv[1]
    with open(scratch + "/args.json") as f:
        spec = json.load(f)
    out = {}
    try:
        setup_inside(scratch)
        mod = importlib.import_module(spec["module"])
        out = getattr(mod, spec["func"])(spec["args"], scratch)
    except common.Inconclusive as e:
        out = {"inconclusive": ["worker: %s" % e]}
    except Exception:
        out = {"inconclusive": ["worker crashed: " + traceback.format_exc()[-3000:]]}
    with open(scratch + "/result.json.tmp", "w") as f:
        json.dump(out, f, default=str)
    os.rename(scratch + "/result.json.tmp", scratch + "/result.json")
    sys.stdout.flush()
    os._exit(0)


def run(module, func, args, timeout=600, keep=False, pidns=True):
    """run module.func(args, scratch) inside a fresh sandbox; returns its dict"""
    scratch = tempfile.mkdtemp(prefix="gpa-verif.", dir=SCRATCH_ROOT)
    try:
        with open(scratch + "/args.json", "w") as f:
            json.dump({"module": module, "func": func, "args": args}, f)
        cmd = ["unshare", "-n", "-m"] + (["-p", "--mount-proc"] if pidns else []) + ["--fork", "--kill-child",
               sys.executable, "-m", "vf.sandbox", scratch]
        env = dict(os.environ, PYTHONPATH=common.VERIF, PYTHONUNBUFFERED="1")
        try:
            p = subprocess.run(cmd, env=env, cwd=common.VERIF, stdout=subprocess.PIPE, stderr=subprocess.STDOUT, timeout=timeout)
            log = p.stdout.decode(errors="replace")
        except subprocess.TimeoutExpired as e:
            return {"inconclusive": ["sandbox watchdog (%ds) fired: %s.%s" % (timeout, module, func)],
                    "log": (e.stdout or b"").decode(errors="replace")[-2000:]}
        try:
            with open(scratch + "/result.json") as f:
                res = json.load(f)
        except Exception:
            res = {"inconclusive": ["no result from sandbox (rc=%s): %s" % (p.returncode, log[-1500:])]}
        if os.environ.get("VF_DEBUG"):
            sys.stderr.write(log)
        res.setdefault("log_tail", log[-1500:])
        return res
    finally:
        if not keep:
            shutil.rmtree(scratch, ignore_errors=True)


def run_many(module, func, arglist, workers=8, timeout=600, pidns=True):
    """parallel sandboxes; yields results in completion order"""
    with concurrent.futures.ThreadPoolExecutor(max_workers=workers) as ex:
        futs = [ex.submit(run, module, func, a, timeout, False, pidns) for a in arglist]
        for fu in concurrent.futures.as_completed(futs):
            yield fu.result()


if __name__ == "__main__":
    _inside_main()

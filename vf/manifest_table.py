"""Single source for MANIFEST.json (bin/gen_manifest writes it)."""
CHECKS = {}
NOT_YET = {}


def check(pid, category, text, note, technique, design_ref):
    CHECKS[pid] = dict(category=category, text=text, note=note, technique=technique, design_ref=design_ref)


check("C02", "exploration",
      "Generated (rule document, identity, URL) triples from collision-forcing alphabets are decided by the real code and compared with an independent reference "
      "of the stated semantics plus five metamorphic invariances; thousands of distinct non-trivial cases per run, all branches of the semantics counted in the evidence. "
      "Exploration is the right level: the property is a pure function over an unbounded input space and the oracle is exact.",
      "Trusts the Python reference (vf/oracles/rbac.py) as the reading of the statement; duplicate query keys / duplicate names are handled by stated leniency.",
      "runtime monitoring: differential + metamorphic oracle over generated inputs through the real decision code (RPC shim), Miri replay in thorough",
      "DESIGN.md 3 C02")


_W = ("Runs the real ProxyServer (agent sources compiled as a library, hooks on) in a private network namespace with mock hosts on the real metadata addresses, "
      "real caller processes and kernel-format attribution records injected through hook H1; ")
_WN = "Hook H1 replaces the kernel audit map (the aya glue below redirector::lookup_audit/remove_audit is bypassed); oracles are Python re-implementations written from the statement."

check("C01", "exploration", _W + "every generated request is judged against a decision table written from the statement (traversal, unattributed, unknown caller, self, non-elevated, enforced denial, forward) "
      "by observing client status and every byte at the mocks; thousands of requests per run across all branches, branch counts in the evidence.",
      _WN + " The policy-lookup-failure branch is driven by a dedicated probe (key-keeper state actor closed), not from the network boundary.", "runtime monitoring: hostile generated workload through the real proxy + reference decision table over boundary observations", "DESIGN.md 3 C01")
check("C03", "exploration", "Pure half: tens of thousands of authorize() calls over generated rule sets/modes/URLs/claims (non-elevated WireServer/HostGAPlugin callers and the self destination must be Forbidden, controls must follow the reference RBAC). "
      "End-to-end half: " + _W + "non-elevated real processes and self-destination records under every mode.", _WN,
      "runtime monitoring: generated inputs through the real authorizer (RPC) and through the real proxy, reference oracle with controls against vacuity", "DESIGN.md 3 C03")
check("C04", "exploration", _W + "with a latched key; every request captured at the mocks (proxied, and the agent's own goal-state/shared-config/IMDS calls) is verified with an independent canonicaliser and hmac/sha256; "
      "route equivalence (build_request vs as_sig_input) on thousands of generated requests; generator features (prefix keys, collisions, duplicate pairs, padded/repeated headers, chunked, body-less) counted.",
      _WN + " The order of query pairs and the treatment of exact duplicates/repeated headers are not fixed by the statement: stated leniencies, counted as ambiguous.",
      "runtime monitoring: byte-exact capture at mock hosts + independent HMAC oracle; differential check of the two signing routes", "DESIGN.md 3 C04")
check("C05", "exploration", _W + "requests carry 0-3 spoofed copies of each proxy-owned header in random case from elevated and non-elevated callers, key latched or not; the header lines captured at the mock are judged "
      "(exactly one claims/date line, proxy values, no sentinel, one verifying authorization line on signed requests).", _WN,
      "runtime monitoring: sentinel (taint) headers + header-line oracle at the mock host", "DESIGN.md 3 C05")
check("C07", "exploration", _W + "histories with immediate source-port reuse (with and without a fresh record), keep-alive connections and bursts of 32-96 concurrently accepted connections each with its own identity under a "
      "user-dependent rule set; oracles over client status, upstream claims header, the stand-in event log (lookup then remove per port) and the agent's own connection-summary lines; delay points on in half of the runs.", _WN,
      "runtime monitoring: history oracle with unique ids + event-log checker (lookup/remove pairing) under concurrency; plus a real-kernel section (real BPF maps through the production aya glue, connects diverted by the kernel's connect4 program)", "DESIGN.md 3 C07, 7.5")
check("C10", "exploration", _W + "8-32 keep-alive clients plus the real EventReader sign requests while the latched key is replaced/cleared thousands of times through the key keeper's own API, with the get_key delay point (H2) "
      "widening the window; the mock verifies each MAC under the secret registered for the announced key id; the evidence counts requests that straddled a rotation (>=300 required); in some shards the mock host rejects 30% of the agent's own calls (401/403/500) so that whatever the agent re-sends is judged too.", _WN + " Interleavings are sampled, not enumerated.",
      "runtime monitoring: stress + injected delays at an existing await + per-request HMAC oracle keyed by announced key id", "DESIGN.md 3 C10")
check("C11", "exploration", _W + "one request/caller sequence (many identical denials, concurrent connections) is replayed under allow-all, enforce, audit and disabled for every endpoint; oracles: enforce->403 and nothing upstream, "
      "audit->relayed identically to the allowed run, disabled->rules ignored, and conservation of the failed-authorization summary (getter and published status.json) against the multiset of reference denials; a burst of several hundred simultaneous denials and a history in which every caller is denied on all three endpoints (same address/other port, other address).", _WN,
      "runtime monitoring: differential replay across modes + conservation checker over the published summary", "DESIGN.md 3 C11")
check("C14", "exploration", _W + "echo-scripted mocks; requests/responses with random bodies up to 100KiB/8MiB/1MiB, content-length/chunked/close framing, TCP segmentation at random offsets, keep-alive with up to 15 requests, "
      "pipelining depth 1-4 and 8-16 concurrent connections; byte/multiset comparison at both ends, response-to-request matching by embedded ids; hosts that announce Connection: close and then close (the next request must be relayed, after a reconnect only if the client connection was closed). Thorough adds a slice with the shim under valgrind memcheck.", _WN + " Header order across names and name case are not compared.",
      "runtime monitoring: byte-level differential oracle at mock host and client socket over generated framings and schedules", "DESIGN.md 3 C14")
check("C15", "exploration", _W + "bodies around both limits (100KiB, 100MiB) declared by Content-Length or chunked on exempt URLs (case variants) and near-miss URLs; oversize must be 4xx with zero bytes upstream, "
      "within-limit must arrive with identical length and SHA-256; 100MiB bodies are really streamed (also chunked, crossing the limit mid-stream); keep-alive scripts mix both request classes on one connection.", _WN,
      "runtime monitoring: boundary-value workload through the real proxy + byte counter / hash oracle at the mock host", "DESIGN.md 3 C15")

check("C08", "fault_enumeration", "The real agent binary runs under strace which kills it at the entry of the k-th invocation of each state-changing syscall (file and socket calls of the worker thread, enumerated from a recording pass) "
      "between the first status poll and the next poll, in five scenarios (fresh latch, key present, host latched an unknown key, corrupt/truncated local key), plus host-fault scripts per protocol step; after every kill the key "
      "directory, the mock host's acquire/attest log (with directory snapshots at each attest) and a restarted agent's first signed request are judged.",
      "Crash model is process death at syscall entry (SIGKILL): torn writes inside one write syscall and power loss are not covered. strace's injection counter is per thread and per syscall; the actual kill site is read back from every trace.",
      "runtime monitoring with fault injection: syscall-granular crash-point enumeration (strace inject) on the real binary + post-crash/restart oracles", "DESIGN.md 3 C08")
check("C09", "exploration", "The real KeyKeeper polls a gated mock WireServer in lock-step (paused tokio clock); histories of host answers (versions, enable flips, rule replace/remove, key rotation/forgetting, per-step faults) are generated and after "
      "every poll the public getters and the recorded redirect-policy map (hook H1, kernel byte format) are compared with a function of the latest answer; failed status polls must change nothing.",
      "State is observed through public getters and the H1 policy trace; behavioural probes through the proxy are covered by C01/C11. HostGAPlugin mode follows WireServer (documented short-term behaviour).",
      "runtime monitoring: history generator + reference function of the latest host answer, lock-step via a gate at the mock host", "DESIGN.md 3 C09")
check("C12", "exploration", "Taint search: every key the mock host latched is searched (hex either case, 16-digit windows, raw bytes, base64) in everything a user can see - all files outside the key directory, stdout/stderr, the captured serial console, "
      "bytes returned to clients, telemetry uploads, upstream request bytes - over real-binary histories (latch, traffic, /provision, faults, rotation, disable/enable, restart) and a shim-hosted telemetry/status pipeline; strace checks chmod 0700 precedes the first key file.",
      "Secrets of interest: every latched key and every key the host delivered inside a malformed key document (wrong member type, missing/extra member, truncated, trailing bytes); chown is made to fail (strace inject) in some histories; memory/core dumps are out of scope. Evidence lists bytes scanned per sink.", "runtime monitoring: taint/needle search over all observable sinks + syscall-order monitor (strace)", "DESIGN.md 3 C12")
check("C13", "exploration", "Process-wide panic hook plus liveness probes while the anchored sites are driven with strings whose multi-byte characters straddle the 1024/4096 cut offsets at every alignment, header values with bytes >= 0x80, "
      "very long URLs, real callers with multi-byte command lines/user names, and hostile host replies (content types x charsets x frame splits, odd-length UTF-16); the key keeper against hostile documents with notifications aimed at the end of its poll interval; thousands of impatient clients that disconnect 0-2 ms after a valid request while probes and the status task run. Thorough adds the same layers with the shim under valgrind memcheck, and Miri replays.",
      "A site not reached by the workload is reported per site in the evidence; debug build (overflow checks on).", "runtime monitoring: panic observer + boundary-alignment input generator at every anchored truncation/decoding site + background-task liveness under hostile host replies, timed notifications and delay points; Miri replay in thorough", "DESIGN.md 3 C13, 7.2")
check("C16", "exploration", "Fresh shim process per history on a multi-thread runtime: real provision functions called from separate threads in production-shaped roles with H2 delay points between the two actor messages; every call is timed at the caller and each "
      "query (getter and HTTP /provision with hostile ticks) must be explained by some linearization of a sequential spec written from the statement; quiescent invariant, also after race cycles in which the last readiness report and a reset start together; status.tag read in a tight loop and watched with inotify.",
      "Per-query linearizability (not joint); ticks inside the establishing operation's interval are not judged.", "runtime monitoring: recorded concurrent histories + linearizability search against a sequential model, inotify/torn-read monitor for the tag file", "DESIGN.md 3 C16")
check("C19", "exploration", "Real RollingLogger, event_logger and AuthorizationRulesForLogging::write_all driven through PRNG histories with small limits, restarts, foreign files and listing faults in the shared directory (dangling symlink, concurrent renames); the directory is listed after every operation and judged against the configured bounds.",
      "Concurrent writers are not judged; earlier runs use the same settings.", "runtime monitoring: invariant check on directory listings at every quiescent point of generated histories", "DESIGN.md 3 C19")
check("C20", "exploration", "All 2^L observation sequences up to L=16 (quick) / 22 (thorough), threshold-straddling and saturation-length runs through the real StatusState, and notification sequences through the real write_state_event, judged by the statement's trace predicates; a sandboxed monitor layer drives the real reporting functions of the monitor loop (aggregate status file ok/missing/corrupt/version mismatch, update command ok/failed/not launched) and judges the written <seq>.status file and the notifications by subject; "
      "exhaustive for the stated depths.", "Only what the statement fixes is required (a variant with a higher threshold still passes).", "runtime monitoring: exhaustive bounded enumeration through the real code with trace predicates (reference automaton compared for information)", "DESIGN.md 3 C20")

check("C06", "exploration", "A user-space ASan+UBSan build of the unmodified eBPF C program runs generated worlds (tasks with uid!=gid, threads, the agent's own pid, TCP/UDP, IPv4/IPv6, listed and near-miss destinations, failing connects) with the two hook "
      "invocations interleaved across threads; policy keys/values are the bytes the Rust side really produces (hook H1) and every audit value the C program writes is decoded by the production Rust decoders; a Python reference of the statement judges "
      "the rewritten context and the audit map.", "The second hook (kprobe) runs only in the model (this kernel has no kprobes): its struct sock_common offsets against a running kernel are out of reach. The first hook, the map glue and the policy keys are additionally exercised in the real kernel.",
      "sanitizers (ASan+UBSan) on the native eBPF source in user space + reference-model monitor + cross-language decode loop + real-kernel run (kernel verifier, connect4 attached to a private cgroup, real connects by real processes)", "DESIGN.md 3 C06, 7.5")
check("C17", "exploration", "The real (release-profile) proxy_agent_setup binary is chroot-ed into a private overlay copy of the root file system with a stand-in systemctl that snapshots the four system files; PRNG command histories from three initial states "
      "are judged by an executable file-tree model of each command's stated effect, byte-identity after backup;install;restore, stop-before-change/start-after-change, and confinement of all changes (overlay upper dir + strace of write-type syscalls).",
      "File modes are not compared; the extension's orchestration of the tool is not driven. Release profile because clap's debug assertions abort debug builds on `restore`.",
      "runtime monitoring: real binary in a private root + file-tree reference model + syscall/overlay confinement monitor", "DESIGN.md 3 C17")
check("C18", "exploration", "The real EventReader (paused tokio clock) consumes generated event files (hostile markup text with unique ids, sizes around and above the 64KiB batch bound, corrupt files) against a mock host with upload fault patterns (statuses, resets, acknowledgements with truncated or chunked bodies); every POST body "
      "is parsed with expat and judged: size bound, flat Param structure, Context1 equals the original text, no id in two different batches or in a batch acknowledged twice, no loss without faults, termination and file removal.",
      "Event text is free of control characters as the statement says; identical re-sends after a failed upload are the documented retry.", "runtime monitoring: unique-id history checker (at-most-once) + independent XML parser oracle under injected upload faults, virtual time", "DESIGN.md 3 C18")

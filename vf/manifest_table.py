"""Single source for MANIFEST.json (bin/gen_manifest writes it)."""
CHECKS = {}
NOT_YET = {}


def check(pid, category, text, note, technique, design_ref):
    CHECKS[pid] = dict(category=category, text=text, note=note, technique=technique, design_ref=design_ref)


check("C02", "exploration",
      "Generated (rule document, identity, URL) triples from collision-forcing alphabets are decided by the real code and compared with an independent reference "
      "of the stated semantics plus five metamorphic invariances; thousands of distinct non-trivial cases per run, all branches of the semantics counted in the evidence. "
      "Exploration is the right level: the property is a pure function over an unbounded input space and the oracle is exact.",
      "Trusts the Python reference (vf/oracles/rbac.py) as the reading of the statement; duplicate query keys / duplicate names are handled by stated leniency.",
      "runtime monitoring: differential + metamorphic oracle over generated inputs through the real decision code (RPC shim), Miri replay in thorough",
      "DESIGN.md 3 C02")

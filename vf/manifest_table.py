"""Single source for MANIFEST.json (bin/gen_manifest writes it)."""
CHECKS = {}
NOT_YET = {}


def check(pid, category, text, note, technique, design_ref):
    CHECKS[pid] = dict(category=category, text=text, note=note, technique=technique, design_ref=design_ref)


check("C02", "exploration",
      "Generated (rule document, identity, URL) triples from collision-forcing alphabets are decided by the real code and compared with an independent reference "
      "of the stated semantics plus five metamorphic invariances; thousands of distinct non-trivial cases per run, all branches of the semantics counted in the evidence. "
      "Exploration is the right level: the property is a pure function over an unbounded input space and the oracle is exact.",
      "Trusts the Python reference (vf/oracles/rbac.py) as the reading of the statement; duplicate query keys / duplicate names are handled by stated leniency.",
      "runtime monitoring: differential + metamorphic oracle over generated inputs through the real decision code (RPC shim), Miri replay in thorough",
      "DESIGN.md 3 C02")


_W = ("Runs the real ProxyServer (agent sources compiled as a library, hooks on) in a private network namespace with mock hosts on the real metadata addresses, "
      "real caller processes and kernel-format attribution records injected through hook H1; ")
_WN = "Hook H1 replaces the kernel audit map (the aya glue below redirector::lookup_audit/remove_audit is bypassed); oracles are Python re-implementations written from the statement."

check("C01", "exploration", _W + "every generated request is judged against a decision table written from the statement (traversal, unattributed, unknown caller, self, non-elevated, enforced denial, forward) "
      "by observing client status and every byte at the mocks; thousands of requests per run across all branches, branch counts in the evidence.",
      _WN + " The 500 branch (policy lookup failure) is not reachable from the boundary.", "runtime monitoring: hostile generated workload through the real proxy + reference decision table over boundary observations", "DESIGN.md 3 C01")
check("C03", "exploration", "Pure half: tens of thousands of authorize() calls over generated rule sets/modes/URLs/claims (non-elevated WireServer/HostGAPlugin callers and the self destination must be Forbidden, controls must follow the reference RBAC). "
      "End-to-end half: " + _W + "non-elevated real processes and self-destination records under every mode.", _WN,
      "runtime monitoring: generated inputs through the real authorizer (RPC) and through the real proxy, reference oracle with controls against vacuity", "DESIGN.md 3 C03")
check("C04", "exploration", _W + "with a latched key; every request captured at the mocks (proxied, and the agent's own goal-state/shared-config/IMDS calls) is verified with an independent canonicaliser and hmac/sha256; "
      "route equivalence (build_request vs as_sig_input) on thousands of generated requests; generator features (prefix keys, collisions, duplicate pairs, padded/repeated headers, chunked, body-less) counted.",
      _WN + " The order of query pairs and the treatment of exact duplicates/repeated headers are not fixed by the statement: stated leniencies, counted as ambiguous.",
      "runtime monitoring: byte-exact capture at mock hosts + independent HMAC oracle; differential check of the two signing routes", "DESIGN.md 3 C04")
check("C05", "exploration", _W + "requests carry 0-3 spoofed copies of each proxy-owned header in random case from elevated and non-elevated callers, key latched or not; the header lines captured at the mock are judged "
      "(exactly one claims/date line, proxy values, no sentinel, one verifying authorization line on signed requests).", _WN,
      "runtime monitoring: sentinel (taint) headers + header-line oracle at the mock host", "DESIGN.md 3 C05")
check("C07", "exploration", _W + "histories with immediate source-port reuse (with and without a fresh record), keep-alive connections and bursts of 32-96 concurrently accepted connections each with its own identity under a "
      "user-dependent rule set; oracles over client status, upstream claims header, the stand-in event log (lookup then remove per port) and the agent's own connection-summary lines; delay points on in half of the runs.", _WN,
      "runtime monitoring: history oracle with unique ids + event-log checker (lookup/remove pairing) under concurrency", "DESIGN.md 3 C07")
check("C10", "exploration", _W + "8-32 keep-alive clients plus the real EventReader sign requests while the latched key is replaced/cleared thousands of times through the key keeper's own API, with the get_key delay point (H2) "
      "widening the window; the mock verifies each MAC under the secret registered for the announced key id; the evidence counts requests that straddled a rotation (>=300 required).", _WN + " Interleavings are sampled, not enumerated.",
      "runtime monitoring: stress + injected delays at an existing await + per-request HMAC oracle keyed by announced key id", "DESIGN.md 3 C10")
check("C11", "exploration", _W + "one request/caller sequence (many identical denials, concurrent connections) is replayed under allow-all, enforce, audit and disabled for every endpoint; oracles: enforce->403 and nothing upstream, "
      "audit->relayed identically to the allowed run, disabled->rules ignored, and conservation of the failed-authorization summary (getter and published status.json) against the multiset of reference denials.", _WN,
      "runtime monitoring: differential replay across modes + conservation checker over the published summary", "DESIGN.md 3 C11")
check("C14", "exploration", _W + "echo-scripted mocks; requests/responses with random bodies up to 100KiB/8MiB/1MiB, content-length/chunked/close framing, TCP segmentation at random offsets, keep-alive with up to 15 requests, "
      "pipelining depth 1-4 and 8-16 concurrent connections; byte/multiset comparison at both ends, response-to-request matching by embedded ids.", _WN + " Header order across names and name case are not compared.",
      "runtime monitoring: byte-level differential oracle at mock host and client socket over generated framings and schedules", "DESIGN.md 3 C14")
check("C15", "exploration", _W + "bodies around both limits (100KiB, 100MiB) declared by Content-Length or chunked on exempt URLs (case variants) and near-miss URLs; oversize must be 4xx with zero bytes upstream, "
      "within-limit must arrive with identical length and SHA-256; 100MiB bodies are really streamed.", _WN,
      "runtime monitoring: boundary-value workload through the real proxy + byte counter / hash oracle at the mock host", "DESIGN.md 3 C15")

"""JSON-lines RPC client for rust/shim (gpa-shim). The shim connects back to our unix socket."""
import json, os, socket, subprocess, threading, itertools
from . import common


class ShimPanic(Exception):
    def __init__(self, info):
        super().__init__(str(info))
        self.info = info


class ShimDead(Exception):
    pass


class Shim:
    def __init__(self, workdir, runtime="multi:4", env=None, verif_dir=None, stdout=None, stderr=None, binary=None, wrapper=None):
        self.workdir = workdir
        os.makedirs(workdir, exist_ok=True)
        self.sock_path = os.path.join(workdir, "rpc.sock")
        if os.path.exists(self.sock_path):
            os.unlink(self.sock_path)
        srv = socket.socket(socket.AF_UNIX, socket.SOCK_STREAM)
        srv.bind(self.sock_path)
        srv.listen(1)
        e = dict(os.environ)
        e.update(env or {})
        e["GPA_SHIM_SOCK"] = self.sock_path
        e["GPA_SHIM_RUNTIME"] = runtime
        if verif_dir:
            os.makedirs(os.path.join(verif_dir, "audit"), exist_ok=True)
            e["GPA_VERIF_DIR"] = verif_dir
        self.stdout_path = stdout or os.path.join(workdir, "shim.stdout")
        self.stderr_path = stderr or os.path.join(workdir, "shim.stderr")
        self._out = open(self.stdout_path, "ab")
        self._err = open(self.stderr_path, "ab")
        cmd = (wrapper or []) + [binary or common.SHIM_BIN]
        self.proc = subprocess.Popen(cmd, env=e, stdin=subprocess.DEVNULL, stdout=self._out, stderr=self._err, cwd=workdir)
        srv.settimeout(60)
        try:
            self.conn, _ = srv.accept()
        except socket.timeout:
            self.proc.kill()
            raise common.Inconclusive("shim did not connect")
        finally:
            srv.close()
        self.rfile = self.conn.makefile("rb")
        self.lock = threading.Lock()
        self.ids = itertools.count(1)
        self.pending = {}
        self.dead = False
        self.reader = threading.Thread(target=self._read, daemon=True)
        self.reader.start()

    def _read(self):
        try:
            for line in self.rfile:
                try:
                    msg = json.loads(line)
                except Exception:
                    continue
                ent = self.pending.pop(msg.get("id"), None)
                if ent:
                    ent[1].append(msg)
                    ent[0].set()
        except Exception:
            pass
        self.dead = True
        for ev, _ in list(self.pending.values()):
            ev.set()

    def call_async(self, op, **args):
        i = next(self.ids)
        ev, box = threading.Event(), []
        self.pending[i] = (ev, box)
        data = (json.dumps({"id": i, "op": op, "args": args}) + "\n").encode()
        with self.lock:
            try:
                self.conn.sendall(data)
            except OSError:
                raise ShimDead(op)
        return ev, box

    def wait(self, handle, timeout=120):
        ev, box = handle
        if not ev.wait(timeout):
            raise common.Inconclusive("shim rpc timeout")
        if not box:
            raise ShimDead("shim died")
        msg = box[0]
        if "panic" in msg:
            raise ShimPanic(msg["panic"])
        ok = msg.get("ok")
        return ok

    def call(self, op, timeout=120, **args):
        return self.wait(self.call_async(op, **args), timeout)

    def panics(self):
        return self.call("panics")["panics"]

    def close(self):
        try:
            with self.lock:
                self.conn.sendall(b'{"id":0,"op":"exit"}\n')
        except OSError:
            pass
        try:
            self.proc.wait(timeout=3)
        except Exception:
            self.proc.kill()
            self.proc.wait()
        try:
            self.conn.close()
        except OSError:
            pass
        self._out.close()
        self._err.close()

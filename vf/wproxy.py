"""W-proxy: the real ProxyServer (in gpa-shim) on 127.0.0.1:3080, mock hosts on the real metadata
addresses, kernel-format attribution records injected through hook H1, real caller processes."""
import json, os, shutil, socket, subprocess, time
from . import common, mockhost, rawhttp, shim as shimmod, standin

WS = ("168.63.129.16", 80)
HGA = ("168.63.129.16", 32526)
IMDS = ("169.254.169.254", 80)
SELF = ("127.0.0.1", 3080)
OTHER = ("127.0.0.2", 8080)
DESTS = {"wireserver": WS, "hostga": HGA, "imds": IMDS, "self": SELF, "other": OTHER}
HELPER_BIN = os.path.join(common.TARGET, "helper")

USERS = [  # name, uid, gid, extra groups
    ("root", 0, 0, []),
    ("alice", 1001, 1001, ["vfstaff"]),
    ("bob", 1002, 1002, []),
    ("gidzero", 1003, 0, []),       # uid != 0 but primary gid 0
    ("Ünï", 1004, 1004, ["vfstaff"]),  # non-ASCII user name
]
GROUPS = [("root", 0), ("alice", 1001), ("bob", 1002), ("uni", 1004), ("vfstaff", 2000),
          ("g", 1003)]      # no members; its gid is the uid of 'gidzero' (whose primary group is root)


def build_helper():
    os.makedirs(common.TARGET, exist_ok=True)
    src = os.path.join(common.VERIF, "csrc", "helper.c")
    if not os.path.exists(HELPER_BIN) or os.path.getmtime(HELPER_BIN) < os.path.getmtime(src):
        subprocess.run(["clang", "-O1", "-o", HELPER_BIN, src], check=True)


def write_passwd():
    lines = open("/etc/passwd").read().splitlines()
    have = {l.split(":")[0] for l in lines}
    with open("/etc/passwd", "a") as f:
        for name, uid, gid, _ in USERS:
            if name not in have:
                f.write("%s:x:%d:%d::/:/bin/sh\n" % (name, uid, gid))
    glines = open("/etc/group").read().splitlines()
    ghave = {l.split(":")[0] for l in glines}
    with open("/etc/group", "a") as f:
        for g, gid in GROUPS:
            members = ",".join(n for n, _, _, ex in USERS if g in ex)
            if g not in ghave:
                f.write("%s:x:%d:%s\n" % (g, gid, members))


def expected_groups(user):
    for name, uid, gid, extra in USERS:
        if name == user:
            gname = {g: n for n, g in GROUPS}
            out = [gname.get(gid, str(gid))] + list(extra)
            return out
    return []


class Identity:
    def __init__(self, world, user, exe_name, argv_tail, exec_capable=False, euid0=False):
        self.world = world
        self.user = user
        ent = [u for u in USERS if u[0] == user][0]
        self.uid, self.gid = ent[1], ent[2]
        self.exe_name = exe_name
        d = os.path.join(world.scratch, "bin", "%d" % len(world.identities))
        os.makedirs(d, exist_ok=True)
        os.chmod(d, 0o755)
        self.exe = os.path.join(d, exe_name)
        shutil.copy(HELPER_BIN, self.exe.encode("utf-8", "surrogateescape") if isinstance(self.exe, str) else self.exe)
        os.chmod(self.exe, 0o755)
        self.argv = [self.exe] + list(argv_tail)
        if euid0 and self.uid != 0:
            # real uid = the user, EFFECTIVE uid 0 (what a set-uid-root program looks like in /proc): the kernel record made at connect time
            # carries the real uid, and that is what decides
            uid, gid = self.uid, self.gid

            def become():
                os.setgroups([]); os.setresgid(gid, gid, gid); os.setresuid(uid, 0, 0)
            self.proc = subprocess.Popen(self.argv, executable=self.exe, preexec_fn=become,
                                         stdin=subprocess.PIPE if exec_capable else subprocess.DEVNULL, stdout=subprocess.DEVNULL, stderr=subprocess.DEVNULL)
        else:
            self.proc = subprocess.Popen(self.argv, executable=self.exe, user=self.uid, group=self.gid, extra_groups=[],
                                         stdin=subprocess.PIPE if exec_capable else subprocess.DEVNULL, stdout=subprocess.DEVNULL, stderr=subprocess.DEVNULL)
        self.pid = self.proc.pid
        self.elevated = self.uid == 0
        self.cmdline = " ".join(self.argv)
        self.generation = 0

    def exec_to(self, exe_name, argv_tail=()):
        """the process becomes another program (execve in the same pid): new executable path, name and command line, same pid/uid"""
        self.generation += 1
        d = os.path.join(os.path.dirname(os.path.dirname(self.exe)), "%s-g%d-%d" % (os.path.basename(os.path.dirname(self.exe)), self.generation, self.pid))
        os.makedirs(d, exist_ok=True)
        os.chmod(d, 0o755)
        new_exe = os.path.join(d, exe_name)
        shutil.copy(HELPER_BIN, new_exe)
        os.chmod(new_exe, 0o755)
        argv = [new_exe] + list(argv_tail)
        self.proc.stdin.write(("exec " + "\x1f".join(argv) + "\n").encode())
        self.proc.stdin.flush()
        t0 = time.time()
        while time.time() - t0 < 5:
            try:
                if os.readlink("/proc/%d/exe" % self.pid) == new_exe:
                    break
            except OSError:
                pass
            time.sleep(0.005)
        else:
            raise common.Inconclusive("helper did not exec into %s" % new_exe)
        self.exe_name, self.exe, self.argv, self.cmdline = exe_name, new_exe, argv, " ".join(argv)

    def claims(self):
        """what the agent should derive for this process (used by reference oracles)"""
        return {"userId": self.uid, "userName": self.user, "userGroups": expected_groups(self.user),
                "processName": self.exe_name, "processFullPath": self.exe, "processCmdLine": self.cmdline,
                "runAsElevated": self.elevated}


class World:
    def __init__(self, scratch, runtime="multi:4", env=None, handler=None, log_level="Trace", start_mocks=True, wrapper=None):
        self.scratch = scratch
        self.vdir = os.path.join(scratch, "standin")
        os.makedirs(self.vdir + "/audit", exist_ok=True)
        self.identities = []
        write_passwd()
        self.mocks = {}
        self.handler = handler or self.default_handler
        if start_mocks:
            for name in ("wireserver", "hostga", "imds", "other"):
                ip, port = DESTS[name]
                self.mocks[name] = mockhost.MockHost(ip, port, lambda r, n=name: self.handler(n, r), name=name)
        self.shim = shimmod.Shim(os.path.join(scratch, "shim"), runtime=runtime, env=env, verif_dir=self.vdir, wrapper=wrapper)
        self.shim.call("init", log_dir="/var/log/azure-proxy-agent", log_level=log_level)
        self.shim.call("proxy_start", port=3080)
        self.wait_listen()

    @staticmethod
    def default_handler(name, req):
        vid = req.header("x-vf-id") or b""
        if req.method == b"CONNECT":
            # a metadata host is no tunnel end point (and a 2xx answer to CONNECT must not carry a body)
            return {"status": 405, "headers": [("x-vf-echo", vid), ("Allow", "GET, POST, PUT")], "body": b"no tunnels here"}
        return {"status": 200, "headers": [("x-vf-echo", vid), ("content-type", "text/plain")], "body": b"echo:" + vid}

    def wait_listen(self, port=3080, timeout=20):
        t0 = time.time()
        while time.time() - t0 < timeout:
            s = socket.socket()
            try:
                s.connect(("127.0.0.1", port))
                s.close()
                return
            except OSError:
                s.close()
                time.sleep(0.02)
        raise common.Inconclusive("proxy listener did not come up")

    def identity(self, user="root", exe_name="helper", argv_tail=(), exec_capable=False, euid0=False):
        i = Identity(self, user, exe_name, argv_tail, exec_capable, euid0)
        self.identities.append(i)
        return i

    def open(self, dest=None, ident=None, record=True, src_port=0, is_root=None, uid=None, pid=None, raw_record=None, timeout=60):
        """open a client connection to the proxy listener; if record, inject the kernel record for its source port first"""
        c = rawhttp.Conn("127.0.0.1", 3080, src_port=src_port, connect=False, timeout=timeout)
        if record:
            dip, dport = DESTS[dest] if isinstance(dest, str) else dest
            u = ident.uid if uid is None and ident else (uid or 0)
            p = ident.pid if pid is None and ident else (pid or 0)
            r = (1 if u == 0 else 0) if is_root is None else is_root
            standin.inject(self.vdir, c.src_port, u, p, r, dip, dport, raw=raw_record)
        c.connect()
        return c

    def rules(self, endpoint, item):
        r = self.shim.call("set_rules", endpoint=endpoint, item=item)
        if r and "err" in r:
            raise common.Inconclusive("set_rules: %s" % r["err"])

    def key(self, guid, value, incarnation=1):
        self.shim.call("update_key", key={"authorizationScheme": "Azure-HMAC-SHA256", "guid": guid,
                                          "incarnationId": incarnation, "issued": "2024-01-01T00:00:00Z", "key": value})

    def upstream(self, vid):
        """all mock-side requests carrying x-vf-id == vid"""
        out = []
        if isinstance(vid, str):
            vid = vid.encode()
        for m in self.mocks.values():
            for r in m.snapshot():
                if r.header("x-vf-id") == vid:
                    out.append(r)
        return out

    def close(self):
        try:
            self.shim.close()
        except Exception:
            pass
        for m in self.mocks.values():
            m.close()
        for i in self.identities:
            try:
                i.proc.kill()
            except Exception:
                pass

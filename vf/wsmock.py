"""Mock WireServer implementing the secure-channel key protocol as a small state machine."""
import json, os, threading, time, uuid
from . import mockhost, hostdocs
from .oracles import sig


class GuidDict(dict):
    """guid -> secret; guids are compared without regard to letter case (the host may print them in upper case)"""
    def __setitem__(self, k, v): dict.__setitem__(self, k.lower(), v)
    def __getitem__(self, k): return dict.__getitem__(self, k.lower())
    def __contains__(self, k): return isinstance(k, str) and dict.__contains__(self, k.lower())
    def get(self, k, d=None): return dict.get(self, k.lower(), d)
    def pop(self, k, *a): return dict.pop(self, k.lower(), *a)


class WsMock:
    def __init__(self, ip="168.63.129.16", port=80, rng=None, key_dir=None, fallback=None):
        self.rng = rng
        self.version = "2.0"
        self.state_v1 = "Wireserver"          # v1: Disabled | Wireserver | WireserverAndImds
        self.enabled = True                    # v2
        self.rules = {}                        # endpoint -> AuthorizationItem dict (v2)
        self.latched = None                    # guid the host regards as attested
        self.issued = GuidDict()               # guid -> secret (every key ever issued)
        self.key_bits = 256                    # the key is a hex string of whatever length the host chooses (HMAC-SHA256 takes any)
        self.guid_case = "lower"               # "upper": the host prints guids in upper case (key documents, status documents)
        self.latched_history = []              # guids in latch order
        self.delivered_in_malformed_document = GuidDict()   # guid -> secret sent to the guest inside a key document it may not be able to parse
        self.log = []                          # (t, kind, detail)
        self.faults = {}                       # step -> list of fault specs consumed one per call; steps: status, acquire, attest
        self.key_dir = key_dir
        self.attest_snapshots = []             # (guid, file existed?, file content) at each attest request
        self.gate_at = None                    # hold the n-th status request (1-based) until released
        self.gate_event = threading.Event()
        self.gate_reached = threading.Event()
        self.status_count = 0
        self.lock = threading.Lock()
        self.fallback = fallback
        self.mock = mockhost.MockHost(ip, port, self.handle, name="wireserver")

    # ---- scripting
    def fault(self, step, spec):
        self.faults.setdefault(step, []).append(spec)

    def _take_fault(self, step):
        with self.lock:
            q = self.faults.get(step)
            if q:
                return q.pop(0)
        return None

    def status_doc(self):
        d = {"authorizationScheme": "Azure-HMAC-SHA256", "keyDeliveryMethod": "http", "keyGuid": self.latched,
             "requiredClaimsHeaderPairs": ["isRoot"], "version": self.version}
        if self.version == "1.0":
            d["secureChannelState"] = self.state_v1
        else:
            d["secureChannelEnabled"] = self.enabled
            d["keyIncarnationId"] = 1
            if self.rules:
                d["authorizationRules"] = dict(self.rules)
        return d

    def new_key(self):
        guid = str(uuid.UUID(int=self.rng.getrandbits(128), version=4)) if self.rng else str(uuid.uuid4())
        if self.guid_case == "upper":
            guid = guid.upper()
        elif self.guid_case == "short":
            self.short_n = getattr(self, "short_n", 0) + 1
            guid = ["k%d", "%d", "key%d", "g-%d"][self.short_n % 4] % self.short_n      # a key id need not look like a GUID
        secret = ("%0*x" % (self.key_bits // 4, self.rng.getrandbits(self.key_bits))) if self.rng else os.urandom(self.key_bits // 8).hex()
        self.issued[guid] = secret
        return {"authorizationScheme": "Azure-HMAC-SHA256", "guid": guid, "incarnationId": 1, "issued": "2024-01-01T00:00:00Z", "key": secret}

    def _apply_fault(self, f):
        if f.get("kind") == "status":
            return {"status": f.get("code", 500), "body": f.get("body", b"fault")}
        if f.get("kind") == "reset":
            return {"reset": True}
        if f.get("kind") == "body":
            if isinstance(f["body"], str):
                f = dict(f, body=f["body"].encode())
            return {"status": 200, "headers": [("Content-Type", f.get("ctype", "application/json; charset=utf-8"))], "body": f["body"]}
        return {"status": 500, "body": b"fault"}

    def handle(self, req):
        t = req.target
        now = time.monotonic_ns()
        if t.startswith(b"/secure-channel/status"):
            with self.lock:
                self.status_count += 1
                n = self.status_count
            if self.gate_at is not None and n >= self.gate_at:
                self.gate_reached.set()
                self.gate_event.wait(30)
                self.gate_event.clear()
            f = self._take_fault("status")
            self.log.append((now, "status", "fault" if f else "ok"))
            if f:
                return self._apply_fault(f)
            return {"status": 200, "headers": [("Content-Type", "application/json; charset=utf-8")], "body": json.dumps(self.status_doc()).encode()}
        if t == b"/secure-channel/key" and req.method == b"POST":
            f = self._take_fault("acquire")
            self.log.append((now, "acquire", "fault" if f else "ok"))
            if f and f.get("kind") == "mangled-key-document":
                # the host issues a key, but the document that carries it is malformed (or has a member the guest does not know)
                k = self.new_key()
                self.delivered_in_malformed_document[k["guid"]] = k["key"]
                self.log.append((now, "issued-in-malformed-document", k["guid"]))
                how = f.get("how", "wrong-type")
                if how == "non-hex-key":
                    k["key"] = k["key"][:40] + "g" + k["key"][41:]      # a well-formed document whose key value is not hex
                    self.delivered_in_malformed_document[k["guid"]] = k["key"]
                elif how == "odd-length-key":
                    k["key"] = k["key"][:63]
                    self.delivered_in_malformed_document[k["guid"]] = k["key"]
                elif how in ("empty-guid", "guid-with-path", "dot-guid", "abs-guid"):
                    # a well-formed document whose key id cannot name a file inside the key directory
                    secret = k["key"]
                    self.delivered_in_malformed_document.pop(k["guid"], None)
                    k["guid"] = {"empty-guid": "", "dot-guid": ".", "abs-guid": os.path.join(os.path.dirname(self.key_dir.rstrip("/")), k["guid"]) if getattr(self, "key_dir", None) else "/var/lib/azure-proxy-agent/" + k["guid"]}.get(how, "../" + k["guid"])
                    self.delivered_in_malformed_document["odd-guid-%d" % len(self.delivered_in_malformed_document)] = secret
                elif how == "wrong-type":
                    k["incarnationId"] = "one"
                elif how == "missing-member":
                    k.pop("issued")
                body = json.dumps(k)
                if how == "truncated":
                    body = body[:-1]
                elif how == "trailing":
                    body += " trailing"
                elif how == "extra-member":
                    body = body[:-1] + ', "keyDeliveryMethod": "http"}'
                status = 200
                if how.startswith("status-"):
                    status = int(how.split("-")[1])      # the key document arrives with a success status other than 200
                return {"status": status, "headers": [("Content-Type", "application/json; charset=utf-8")], "body": body.encode()}
            if f:
                return self._apply_fault(f)
            k = self.new_key()
            self.log.append((now, "issued", k["guid"]))
            return {"status": 200, "headers": [("Content-Type", "application/json; charset=utf-8")], "body": json.dumps(k).encode()}
        if t.startswith(b"/secure-channel/key/") and t.endswith(b"/key-attestation") and req.method == b"POST":
            guid = t.split(b"/")[3].decode()
            snap = None
            if self.key_dir:
                p = os.path.join(self.key_dir, guid + ".key")
                try:
                    with open(p, "rb") as fh:
                        snap = fh.read()
                except OSError:
                    snap = None
                self.attest_snapshots.append((guid, snap))
            f = self._take_fault("attest")
            if f and f.get("kind") == "latch-then-lose-response":
                # the host processes the attestation but the response never reaches the guest
                verdict, detail = sig.verify(req, self.issued)
                if verdict in ("ok", "ok-lenient") and detail[0] == guid.lower():
                    self.latched = guid
                    self.latched_history.append(guid)
                    self.log.append((now, "attest", "%s ok (response lost)" % guid))
                else:
                    self.log.append((now, "attest", "%s %s (response lost)" % (guid, verdict)))
                return {"reset": True}
            if f:
                self.log.append((now, "attest", "fault " + guid))
                return self._apply_fault(f)
            verdict, detail = sig.verify(req, self.issued)
            ok = verdict in ("ok", "ok-lenient") and detail[0] == guid.lower()
            self.log.append((now, "attest", "%s %s" % (guid, verdict)))
            if not ok:
                return {"status": 403, "body": b"bad attestation"}
            self.latched = guid
            self.latched_history.append(guid)
            return {"status": 200, "body": b""}
        own = hostdocs.own_calls_handler("wireserver", req)
        if own is not None:
            return own
        if self.fallback:
            return self.fallback("wireserver", req)
        return {"status": 200, "body": b"ok"}

    def release(self):
        self.gate_reached.clear()
        self.gate_event.set()

    def count(self, kind):
        return sum(1 for _, k, _ in self.log if k == kind)

    def close(self):
        self.gate_at = None
        self.gate_event.set()
        self.mock.close()

"""Paths, builds, PRNG and small helpers shared by every check (stdlib only)."""
import hashlib, json, os, random, subprocess, sys, time

VERIF = "/verif"
REPO = "/repo"
TARGET = os.path.join(VERIF, "target")
RUST_TARGET = os.path.join(TARGET, "rust")
AGENT_TARGET = os.path.join(TARGET, "agent")
SHIM_BIN = os.path.join(RUST_TARGET, "debug", "gpa-shim")
AGENT_BIN = os.path.join(AGENT_TARGET, "debug", "azure-proxy-agent")
SETUP_BIN = os.path.join(AGENT_TARGET, "release", "proxy_agent_setup")
REPLAYS = os.path.join(VERIF, "replays")
EVIDENCE = os.path.join(VERIF, "evidence")

CARGO_ENV = dict(os.environ, CARGO_NET_OFFLINE="true", RUSTFLAGS="--cfg gpa_verif")


class Inconclusive(Exception):
    pass


def seed():
    try:
        return int(os.environ.get("VERIF_SEED", "1"))
    except ValueError:
        return 1


def rng(*salt):
    h = hashlib.sha256(("%d|" % seed() + "|".join(str(s) for s in salt)).encode()).digest()
    return random.Random(int.from_bytes(h[:8], "big"))


def sha(obj):
    if not isinstance(obj, (bytes, bytearray)):
        obj = json.dumps(obj, sort_keys=True, default=str).encode()
    return hashlib.sha256(obj).hexdigest()[:16]


def _run(cmd, env, cwd, what, timeout=1800):
    t0 = time.time()
    p = subprocess.run(cmd, env=env, cwd=cwd, stdout=subprocess.PIPE, stderr=subprocess.STDOUT, timeout=timeout)
    if p.returncode != 0:
        sys.stderr.write(p.stdout.decode(errors="replace")[-6000:])
        raise Inconclusive("build failed: %s" % what)
    return time.time() - t0


def build_rust():
    """agentlib + extlib + gpa-shim from /repo's current working tree, hooks on."""
    env = dict(CARGO_ENV, CARGO_TARGET_DIR=RUST_TARGET)
    _run(["cargo", "build", "--offline"], env, os.path.join(VERIF, "rust"), "rust workspace")
    # the agent's config Lazy panics without a config file; sandboxes provide /etc/azure/proxy-agent.json,
    # this one (next to the exe) is the fallback for un-sandboxed use.
    cfg = os.path.join(RUST_TARGET, "debug", "proxy-agent.json")
    if not os.path.exists(cfg):
        with open(cfg, "w") as f:
            json.dump(default_config(), f)


def build_agent(packages=("azure-proxy-agent",)):
    env = dict(CARGO_ENV, CARGO_TARGET_DIR=AGENT_TARGET)
    cmd = ["cargo", "build", "--offline", "--manifest-path", os.path.join(REPO, "Cargo.toml")]
    for p in packages:
        cmd += ["-p", p]
    _run(cmd, env, REPO, "agent binaries")


def build_setup_tool():
    """release profile: clap's debug assertions make the debug build of the tool panic on `restore`, which production builds never run"""
    env = dict(CARGO_ENV, CARGO_TARGET_DIR=AGENT_TARGET)
    _run(["cargo", "build", "--offline", "--release", "--manifest-path", os.path.join(REPO, "Cargo.toml"), "-p", "proxy_agent_setup"], env, REPO, "setup tool (release)")


def default_config(poll_s=1):
    return {
        "logFolder": "/var/log/azure-proxy-agent",
        "eventFolder": "/var/log/azure-proxy-agent/events",
        "latchKeyFolder": "/var/lib/azure-proxy-agent/keys",
        "monitorIntervalInSeconds": 60,
        "pollKeyStatusIntervalInSeconds": poll_s,
        "hostGAPluginSupport": 1,
        "ebpfProgramName": "ebpf_cgroup.o",
        "cgroupRoot": "/sys/fs/cgroup",
        "fileLogLevel": "Trace",
    }


def mono_ns():
    return time.monotonic_ns()


def merge_strace(path):
    """strace -f output with '<unfinished ...>' / '<... resumed>' pairs merged per thread: every syscall is one line with its result"""
    import re
    merged, pending = [], {}
    try:
        fh = open(path, errors="replace")
    except OSError:
        return merged
    with fh:
        for raw in fh:
            raw = raw.rstrip("\n")
            tid, _, rest = raw.partition(" ")
            rest = rest.strip()
            if rest.endswith("<unfinished ...>"):
                pending[tid] = rest[:-len("<unfinished ...>")]
                continue
            m = re.match(r"<\.\.\. \w+ resumed>(.*)", rest)
            if m and tid in pending:
                rest = pending.pop(tid) + m.group(1)
            merged.append(tid + "    " + rest)
    for tid, rest in pending.items():      # killed while inside the call
        merged.append(tid + "    " + rest + " = ?")
    return merged


# ---- valgrind memcheck slices (thorough tiers): the shim runs under memcheck, reports are collected from its log files
def memcheck_wrapper(scratch):
    import os
    d = os.path.join(scratch, "memcheck")
    os.makedirs(d, exist_ok=True)
    return ["valgrind", "--tool=memcheck", "--error-exitcode=0", "--num-callers=40", "--leak-check=no", "--undef-value-errors=yes",
            "--log-file=%s/vg.%%p.log" % d], d


def memcheck_reports(logdir):
    """returns (list of {kind, first_agent_frame, block}, summary lines). A report = one '==pid== <Kind>' block with a stack."""
    import glob, re
    KINDS = ("Invalid read", "Invalid write", "Invalid free", "Mismatched free", "Conditional jump or move depends on uninitialised", "Use of uninitialised value",
             "Syscall param", "Source and destination overlap", "Process terminating", "Jump to the invalid address", "Argument ")
    reports, summaries = [], []
    for f in sorted(glob.glob(logdir + "/vg.*.log")):
        lines = [re.sub(r"^==\d+== ?", "", l.rstrip("\n")) for l in open(f, errors="replace")]
        i = 0
        while i < len(lines):
            l = lines[i]
            if l.startswith("ERROR SUMMARY"):
                summaries.append(l)
            if any(l.startswith(k) for k in KINDS):
                blk = [l]
                j = i + 1
                while j < len(lines) and lines[j].strip():
                    blk.append(lines[j]); j += 1
                frame = next((b.strip() for b in blk[1:] if any(t in b for t in ("proxy_agent", "agentlib", "gpa_shim", "extlib"))), blk[1].strip() if len(blk) > 1 else "")
                frame = re.sub(r"^(at|by) 0x[0-9A-Fa-f]+: ", "", frame)
                reports.append({"kind": l.split(" of size")[0][:60], "first_agent_frame": frame[:200], "block": blk[:25]})
                i = j
            else:
                i += 1
    return reports, summaries


def is_timeout(x):
    """a client-side socket timeout (exception object or the "error:..." status text made from it): a watchdog firing, never a verdict"""
    import socket
    if isinstance(x, BaseException):
        return isinstance(x, (socket.timeout, TimeoutError))
    return isinstance(x, str) and ("TimeoutError" in x or "timed out" in x)

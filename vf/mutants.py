"""Hand-written 'must detect' mutations (DESIGN.md section 3/5). Each is a textual replacement in /repo that still
compiles; bin/mutants applies one at a time to /repo's working tree, runs the quick check of the property that is
supposed to notice, expects a VIOLATION line, and reverts (git checkout). Nothing here is ever committed to /repo."""

M = []


def m(prop, name, path, old, new, note="", count=1):
    M.append({"prop": prop, "name": name, "path": path, "old": old, "new": new, "note": note, "count": count})


PS = "proxy_agent/src/proxy/proxy_server.rs"
PA = "proxy_agent/src/proxy/proxy_authorizer.rs"
AR = "proxy_agent/src/proxy/authorization_rules.rs"
KEY = "proxy_agent/src/key_keeper/key.rs"
KK = "proxy_agent/src/key_keeper.rs"
HC = "proxy_agent/src/common/hyper_client.rs"
PC = "proxy_agent/src/proxy/proxy_connection.rs"
PROV = "proxy_agent/src/provision.rs"
PW = "proxy_agent/src/shared_state/provision_wrapper.rs"
EL = "proxy_agent_shared/src/telemetry/event_logger.rs"
ER = "proxy_agent/src/telemetry/event_reader.rs"
RL = "proxy_agent_shared/src/logger/rolling_logger.rs"
MH = "proxy_agent_shared/src/misc_helpers.rs"
EXT = "proxy_agent_extension/src/common.rs"
SM = "proxy_agent_extension/src/service_main.rs"
SETUP = "proxy_agent_setup/src/linux.rs"
SETUPM = "proxy_agent_setup/src/main.rs"
EBPF = "linux-ebpf/ebpf_cgroup.c"
EO = "proxy_agent/src/redirector/linux/ebpf_obj.rs"
TE = "proxy_agent/src/telemetry/telemetry_event.rs"
HELP = "proxy_agent/src/common/helpers.rs"
ASW = "proxy_agent/src/shared_state/agent_status_wrapper.rs"

# ---- C01
m("C01", "traversal-check-only-on-prefix", PC, 'self.url.path().contains("..")', 'self.url.path().starts_with("/..")')
m("C01", "audit-and-forbidden-swapped", PS, "            if result == AuthorizeResult::Forbidden {\n                self.log_connection_summary(", "            if result == AuthorizeResult::OkWithAudit {\n                self.log_connection_summary(")
m("C01", "default-authorizer-for-self", PA, "    } else if ip == constants::PROXY_AGENT_IP && port == constants::PROXY_AGENT_PORT {\n        return Box::new(ProxyAgent {});", "    } else if ip == constants::PROXY_AGENT_IP && port == constants::PROXY_AGENT_PORT + 1 {\n        return Box::new(ProxyAgent {});")
m("C01", "no-claims-forwarded-for-other-destinations", PS, "        let claims = match tcp_connection_context.claims {\n            Some(c) => c.clone(),\n            None => {", "        let claims = match tcp_connection_context.claims {\n            Some(c) => c.clone(),\n            None if port == 8080 => crate::proxy::Claims::empty(),\n            None => {")
# ---- C02
m("C02", "identity-check-dropped", AR, "                            if identity.is_match(logger, &claims) {", "                            if identity.is_match(logger, &claims) || identity.userName.is_none() {")
m("C02", "query-parameters-ignored-when-two", KEY, "                for (key, value) in query_parameters {\n                    match hyper_client::query_pairs(request_url)", "                for (key, value) in query_parameters.iter().take(1) {\n                    match hyper_client::query_pairs(request_url)")
m("C02", "default-when-privilege-matched", AR, "        if any_privilege_matched {\n            logger.write(", "        if any_privilege_matched && !self.defaultAllowed {\n            logger.write(")
m("C02", "rule-path-case-regression", KEY, ".starts_with(&self.path.to_lowercase())", ".starts_with(&self.path)")
m("C02", "group-match-any-attribute", KEY, "            if !matched {\n                logger.write(\n                    LoggerLevel::Trace,\n                    format!(\n                        \"Not matched user group name", "            if !matched && self.userName.is_none() {\n                logger.write(\n                    LoggerLevel::Trace,\n                    format!(\n                        \"Not matched user group name")
# ---- C03
m("C03", "elevation-test-after-rules-wireserver", PA, "impl Authorizer for WireServer {\n    fn authorize(\n        &self,\n        logger: &mut ConnectionLogger,\n        request_url: hyper::Uri,\n        access_control_rules: Option<ComputedAuthorizationItem>,\n    ) -> AuthorizeResult {\n        if !self.claims.runAsElevated {\n            return AuthorizeResult::Forbidden;\n        }\n",
  "impl Authorizer for WireServer {\n    fn authorize(\n        &self,\n        logger: &mut ConnectionLogger,\n        request_url: hyper::Uri,\n        access_control_rules: Option<ComputedAuthorizationItem>,\n    ) -> AuthorizeResult {\n        if !self.claims.runAsElevated && access_control_rules.is_none() {\n            return AuthorizeResult::Forbidden;\n        }\n")
m("C03", "hostga-disabled-mode-shortcut", PA, "impl Authorizer for GAPlugin {\n    fn authorize(\n        &self,\n        logger: &mut ConnectionLogger,\n        request_url: hyper::Uri,\n        access_control_rules: Option<ComputedAuthorizationItem>,\n    ) -> AuthorizeResult {\n",
  "impl Authorizer for GAPlugin {\n    fn authorize(\n        &self,\n        logger: &mut ConnectionLogger,\n        request_url: hyper::Uri,\n        access_control_rules: Option<ComputedAuthorizationItem>,\n    ) -> AuthorizeResult {\n        if let Some(r) = &access_control_rules {\n            if r.mode == AuthorizationMode::Disabled {\n                return AuthorizeResult::Ok;\n            }\n        }\n")
# ---- C04
m("C05", "date-header-never-added", PS, "        proxy_request.headers_mut().insert(\n            HeaderName::from_static(constants::DATE_HEADER),", "        let mut _unused = hyper::HeaderMap::new();\n        _unused.insert(\n            HeaderName::from_static(constants::DATE_HEADER),")
m("C04", "body-dropped-from-string-to-sign-when-large", HC, "    data.extend(LF.as_bytes());\n    data.extend(body);\n    data.extend(LF.as_bytes());\n\n    data.extend(headers_to_canonicalized_string(&head.headers).as_bytes());", "    data.extend(LF.as_bytes());\n    if body.len() < 65536 {\n        data.extend(body);\n    }\n    data.extend(LF.as_bytes());\n\n    data.extend(headers_to_canonicalized_string(&head.headers).as_bytes());")
m("C04", "header-value-not-trimmed-own-route", HC, '        let h = format!("{}:{}{}", key, map[key].1.trim(), separator);', '        let h = format!("{}:{}{}", key, map[key].1, separator);')
m("C04", "collision-regression", HC, '(format!("{}{}", key, value), key.to_string()),', '(format!("{}{}", key, value), String::new()),')
m("C04", "query-keys-not-lowercased", HC, "            let key = key.to_lowercase();\n            pairs.insert(", "            let key = key.to_string();\n            pairs.insert(")
# ---- C05
m("C05", "claims-append-instead-of-insert", PS, "        proxy_request.headers_mut().insert(\n            HeaderName::from_static(constants::CLAIMS_HEADER),", "        proxy_request.headers_mut().append(\n            HeaderName::from_static(constants::CLAIMS_HEADER),")
m("C05", "authorization-append", PS, "                    proxy_request.headers_mut().insert(\n                        HeaderName::from_static(constants::AUTHORIZATION_HEADER),", "                    proxy_request.headers_mut().append(\n                        HeaderName::from_static(constants::AUTHORIZATION_HEADER),")
m("C05", "claims-from-client-when-elevated-header-present", PS, "            constants::CLAIMS_IS_ROOT,\n            claims.runAsElevated\n        );", "            constants::CLAIMS_IS_ROOT,\n            claims.runAsElevated || proxy_request.headers().contains_key(\"x-ms-azure-host-date\")\n        );")
# ---- C06
m("C06", "uid-from-gid-regression", EBPF, "__u32 uid = (__u32)(bpf_get_current_uid_gid() & 0xFFFFFFFF);\n    entry.logon_id", "__u32 uid = (__u32)(bpf_get_current_uid_gid() >> 32);\n    entry.logon_id")
m("C06", "skc-num-dport-swapped", EBPF, "update_audit_map_entry_sk(skc.skc_num, local_entry);", "update_audit_map_entry_sk(skc.skc_dport, local_entry);")
m("C06", "skip-process-test-dropped-in-first-hook", EBPF, "    if (check_skip_process_map_entry(pid) == 1)\n    {\n        return 1;\n    }", "    if (check_skip_process_map_entry(pid) == 2)\n    {\n        return 1;\n    }")
m("C06", "host-order-port-in-rust-policy-key", EO, "        entry.destination_port = port.to_be() as u32;", "        entry.destination_port = port as u32;")
m("C06", "audit-entry-field-order", EO, "            logon_id: array[0],\n            process_id: array[1],", "            logon_id: array[1],\n            process_id: array[0],")
m("C06", "protocol-not-checked", EBPF, "    entry.protocol = ctx->protocol;\n\n    // Find the entry in the policy map.", "    entry.protocol = IPPROTO_TCP;\n\n    // Find the entry in the policy map.")
# ---- C07
m("C07", "remove-audit-dropped", PC, "                match redirector::remove_audit(client_source_port, redirector_shared_state).await {\n                    Ok(_) => logger.write(", "                match Ok::<(), Error>(()) {\n                    Ok(_) => logger.write(")
# ---- C08
m("C08", "attest-before-store", KK, "                    match Self::store_key(&self.key_dir, &key) {", "                    let _ = key::attest_key(&self.base_url, &key).await;\n                    match Self::store_key(&self.key_dir, &key) {")
m("C08", "write-key-in-place", MH, "    let temp_file_path = file_path.with_extension(\"tmp\");\n    let file = File::create(&temp_file_path)?;\n    serde_json::to_writer_pretty(file, obj)?;\n    std::fs::rename(temp_file_path, file_path)?;", "    let file = File::create(file_path)?;\n    serde_json::to_writer_pretty(file, obj)?;")
m("C08", "always-acquire-new-key", KK, "                if let Some(guid) = &status.keyGuid {\n                    // key latched before and search the key locally first", "                if let (Some(guid), false) = (&status.keyGuid, true) {\n                    // key latched before and search the key locally first")
m("C08", "skip-read-back-check", KK, "                    if let Err(e) = Self::check_key(&self.key_dir, &key) {", "                    if let Err(e) = Ok::<(), Error>(()) {")
# ---- C09
m("C09", "key-not-cleared-on-disabled", KK, "                            if let Err(e) = self.key_keeper_shared_state.clear_key().await {", "                            if let Err(e) = Ok::<(), Error>(()) {")
m("C09", "imds-rules-kept-when-removed", KK, "                    if updated {\n                        logger::write_warning(format!(\n                            \"IMDS rule id changed", "                    if updated && !imds_rule_id.is_empty() {\n                        logger::write_warning(format!(\n                            \"IMDS rule id changed")
m("C09", "imds-policy-tied-to-wireserver-mode", KK, "                            status.get_imds_mode() != DISABLE_STATE,", "                            status.get_wire_server_mode() != DISABLE_STATE,")
m("C09", "rule-id-updated-before-failed-status", KK, "            let status = match key::get_status(&self.base_url).await {\n                Ok(s) => s,\n                Err(e) => {", "            let status = match key::get_status(&self.base_url).await {\n                Ok(s) => s,\n                Err(e) => {\n                    let _ = self.key_keeper_shared_state.update_imds_rule_id(String::new()).await;")
# ---- C10
m("C10", "two-reads-regression", PS, "        if let (Some(key_guid), Some(key)) = self\n            .key_keeper_shared_state\n            .get_current_key_guid_and_value()\n            .await\n            .unwrap_or((None, None))\n        {",
  "        if let (Some(key_guid), Some(key)) = (\n            self.key_keeper_shared_state.get_current_key_guid().await.unwrap_or(None),\n            self.key_keeper_shared_state.get_current_key_value().await.unwrap_or(None),\n        ) {")
# ---- C11
m("C11", "denial-recorded-twice", PS, "                    StatusCode::FORBIDDEN,\n                    false,\n                    format!(\"Block unauthorized request: {}\", claim_details),", "                    StatusCode::FORBIDDEN,\n                    true,\n                    format!(\"Block unauthorized request: {}\", claim_details),")
m("C11", "audit-denial-not-recorded", PS, "        if result != AuthorizeResult::Ok {\n            // log to authorize failed connection summary", "        if result == AuthorizeResult::Forbidden {\n            // log to authorize failed connection summary")
m("C11", "summary-key-without-process", "proxy_agent/src/proxy/proxy_summary.rs", "            self.processFullPath.to_string_lossy(),\n            self.processCmdLine,", "            \"\",\n            \"\",")
m("C11", "rules-consulted-in-disabled-mode", AR, "        if self.mode == AuthorizationMode::Disabled {\n            logger.write(", "        if self.mode == AuthorizationMode::Disabled && self.privileges.is_empty() {\n            logger.write(")
# ---- C12
m("C12", "key-logged-at-trace", KK, "                                let message = helpers::write_startup_event(\n                                    \"Successfully attest the key and ready to use.\",", "                                logger::write(format!(\"attested key {} {}\", key.guid, key.key));\n                                let message = helpers::write_startup_event(\n                                    \"Successfully attest the key and ready to use.\",")
m("C12", "key-prefix-in-status-message", KK, "                            let message = helpers::write_startup_event(\n                                \"Found key details from local and ready to use.\",", "                            logger::write_warning(format!(\"local key {} fingerprint {}\", guid, &key.key[..24]));\n                            let message = helpers::write_startup_event(\n                                \"Found key details from local and ready to use.\",")
m("C12", "acl-after-first-poll", KK, "        match acl::acl_directory(self.key_dir.clone()) {", "        match if self.interval.as_secs() > 100000 { acl::acl_directory(self.key_dir.clone()) } else { Ok(()) } {")
# ---- C13
m("C13", "event-truncate-regression", EL, "        let mut end = MAX_MESSAGE_LENGTH;\n        while !message.is_char_boundary(end) {\n            end -= 1;\n        }\n        message[..end].to_string()", "        message[..MAX_MESSAGE_LENGTH].to_string()")
m("C13", "header-to-str-unwrap-regression", HC, "String::from_utf8_lossy(value.as_bytes()).to_string();", "value.to_str().unwrap().to_string();")
m("C13", "time-tick-unwrap", PS, 'Some(time_tick) => time_tick.to_str().unwrap_or("0"),', "Some(time_tick) => time_tick.to_str().unwrap(),")
# ---- C14
m("C14", "response-byte-altered", PS, "Ok(data) => data.iter().map(|byte| byte.to_be()).collect::<Bytes>(),", "Ok(data) => data.iter().map(|byte| if data.len() == 4093 { byte.wrapping_add(1) } else { byte.to_be() }).collect::<Bytes>(),")
m("C14", "response-header-dropped", PS, "        let mut response = Response::from_parts(head, frame_stream.boxed());", "        let mut head = head;\n        head.headers.remove(\"vary\");\n        let mut response = Response::from_parts(head, frame_stream.boxed());")
# ---- C15
m("C15", "one-limit-for-both-classes", PS, "RequestBodyLimitLayer::new(REQUEST_BODY_LARGE_LIMIT_SIZE);", "RequestBodyLimitLayer::new(REQUEST_BODY_LOW_LIMIT_SIZE);")
m("C15", "limit-off-by-one", PS, "const REQUEST_BODY_LOW_LIMIT_SIZE: usize = 1024 * 100; // 100KB", "const REQUEST_BODY_LOW_LIMIT_SIZE: usize = 1024 * 100 + 1; // 100KB")
m("C15", "exempt-url-before-lowercase", HC, "    let url = relative_uri.to_string().to_lowercase();\n\n    // currently", "    let url = relative_uri.to_string();\n\n    // currently")
# ---- C16
m("C16", "tick-comparison-strict", PS, "            && provision_state.finished_time_tick >= query_time_tick)", "            && provision_state.finished_time_tick > query_time_tick + 5_000_000)")
m("C16", "tick-zero-regression", PS, "        let report_provision_finished = (provision_state.finished_time_tick != 0\n            && provision_state.finished_time_tick >= query_time_tick)", "        let report_provision_finished = (provision_state.finished_time_tick >= query_time_tick)")
m("C16", "status-tag-in-place", PROV, '    let status_file: PathBuf = provision_dir.join(format!(\n        "{}.{}.{}",\n        STATUS_TAG_TMP_FILE_NAME,\n        misc_helpers::get_thread_identity(),\n        misc_helpers::get_date_time_unix_nano()\n    ));', "    let status_file: PathBuf = provision_dir.join(STATUS_TAG_FILE_NAME);")
m("C16", "reset-keeps-finished", PW, "                        provision_finished_time_tick =\n                            if provision_state.contains(ProvisionFlags::ALL_READY) {\n                                misc_helpers::get_date_time_unix_nano()\n                            } else {\n                                0\n                            };", "")
m("C16", "error-text-wrong-bit", PROV, "    if !provision_state.contains(ProvisionFlags::LISTENER_READY) {\n        state.push_str(&format!(\n            \"proxyListenerStatus", "    if !provision_state.contains(ProvisionFlags::KEY_LATCH_READY) {\n        state.push_str(&format!(\n            \"proxyListenerStatus")
m("C16", "shared-tmp-name-regression", PROV, '        "{}.{}.{}",\n        STATUS_TAG_TMP_FILE_NAME,\n        misc_helpers::get_thread_identity(),\n        misc_helpers::get_date_time_unix_nano()', '        "{}.{}.{}",\n        STATUS_TAG_TMP_FILE_NAME,\n        0,\n        0')
m("C14", "send-without-ready-regression", PC, "        self.sender.ready().await.map_err(|e| {", "        std::future::ready(Ok::<(), hyper::Error>(())).await.map_err(|e| {")
# ---- C17
m("C17", "ebpf-missing-from-backup", SETUP, "    copy_file(PathBuf::from(EBPF_PATH), backup_folder.join(EBPF_FILE));\n    copy_file(\n        running::proxy_agent_running_folder(\"\").join(\"azure-proxy-agent\"),", "    copy_file(\n        running::proxy_agent_running_folder(\"\").join(\"azure-proxy-agent\"),")
m("C17", "restore-from-package-folder", SETUPM, "    let src_folder = backup::proxy_agent_backup_package_folder();\n    let dst_folder =\n        running::proxy_agent_version_target_folder(&setup::proxy_agent_exe_path(&src_folder));", "    let src_folder = setup::proxy_agent_folder_in_setup();\n    let dst_folder =\n        running::proxy_agent_version_target_folder(&setup::proxy_agent_exe_path(&src_folder));")
m("C17", "install-copies-before-stop", SETUPM, "        args::Command::Install => {\n            stop_service().await;\n            let proxy_agent_target_folder = copy_proxy_agent();", "        args::Command::Install => {\n            let proxy_agent_target_folder = copy_proxy_agent();\n            stop_service().await;")
m("C17", "purge-deletes-installed-config", SETUPM, "        args::Command::Purge => {\n            delete_backup_folder();", "        args::Command::Purge => {\n            delete_backup_folder();\n            let _ = fs::remove_file(\"/etc/azure/proxy-agent.json\");")
# ---- C18
m("C18", "escape-lt-dropped", HELP, "        .replace('<', \"&lt;\")\n", "")
m("C18", "size-test-strict", ER, "if telemetry_data.get_size() >= Self::MAX_MESSAGE_SIZE {", "if telemetry_data.get_size() > Self::MAX_MESSAGE_SIZE + 1 {")
m("C18", "overflowing-event-not-put-back", ER, "                            } else {\n                                events.push(event);\n                            }", "                            }")
m("C18", "overflowing-event-put-back-twice", ER, "                            } else {\n                                events.push(event);\n                            }", "                            } else {\n                                events.push(Event { EventLevel: event.EventLevel.clone(), Message: event.Message.clone(), Version: event.Version.clone(), TaskName: event.TaskName.clone(), EventPid: event.EventPid.clone(), EventTid: event.EventTid.clone(), OperationId: event.OperationId.clone(), TimeStamp: event.TimeStamp.clone() });\n                                events.push(event);\n                            }")
m("C18", "file-not-deleted-on-parse-error", ER, "            Self::clean_files(file);\n        }\n        num_events_logged", "        }\n        num_events_logged")
# ---- C19
m("C19", "log-deletion-off-by-one", RL, "        if file_count >= max_count {\n            let mut count = max_count;\n            for log in log_files {", "        if file_count > max_count {\n            let mut count = max_count;\n            for log in log_files {")
m("C19", "event-cap-strict", EL, "                if files.len() >= max_event_file_count {", "                if files.len() > max_event_file_count {")
m("C19", "rule-dump-deletion-off-by-one", AR, "        if files.len() >= max_file_count {\n            let mut count = max_file_count;", "        if files.len() > max_file_count {\n            let mut count = max_file_count;")
m("C19", "roll-only-when-twice-the-limit", RL, "        let should_roll = file_length >= self.max_log_file_size;", "        let should_roll = file_length >= 2 * self.max_log_file_size;")
# ---- C20
m("C20", "threshold-19", EXT, "            transition_to_error_threshold: 20,", "            transition_to_error_threshold: 19,")
m("C20", "success-to-error-shortcut", EXT, "                if self.consecutive_fail_count >= 1 {\n                    self.current_state = constants::TRANSITIONING_STATUS.to_string();", "                if self.consecutive_fail_count >= 1 {\n                    self.current_state = if self.consecutive_success_count == 0 && self.transition_to_error_threshold > 5 { constants::ERROR_STATUS.to_string() } else { constants::TRANSITIONING_STATUS.to_string() };")
m("C20", "error-needs-two-successes", EXT, "            constants::ERROR_STATUS => {\n                if self.consecutive_success_count >= 1 {", "            constants::ERROR_STATUS => {\n                if self.consecutive_success_count >= 2 {")
m("C20", "rate-limit-119", SM, "const MAX_STATE_COUNT: u32 = 120;", "const MAX_STATE_COUNT: u32 = 119;")
m("C20", "threshold-21-allowed", EXT, "            transition_to_error_threshold: 20,", "            transition_to_error_threshold: 21,", note="property still holds: must NOT be detected")

"""Driver side of hook H1: kernel-format records in the stand-in map directory."""
import os, socket, struct


def audit_key_hex(port):
    return struct.pack("<II", 6, port).hex()


def audit_value(uid, pid, is_root, dest_ip, dest_port):
    """bytes exactly as the kernel program writes sock_addr_audit_entry on a little-endian host:
    logon_id, process_id, is_root as u32; destination_ipv4 in network byte order; destination_port = __be16 in a u32 slot"""
    return struct.pack("<III", uid & 0xFFFFFFFF, pid & 0xFFFFFFFF, is_root) + socket.inet_aton(dest_ip) + struct.pack(">H", dest_port) + b"\0\0"


def inject(vdir, port, uid, pid, is_root, dest_ip, dest_port, raw=None):
    d = os.path.join(vdir, "audit")
    os.makedirs(d, exist_ok=True)
    final = os.path.join(d, audit_key_hex(port))
    tmp = os.path.join(vdir, "tmp-%d-%d" % (os.getpid(), port))
    with open(tmp, "wb") as f:
        f.write(raw if raw is not None else audit_value(uid, pid, is_root, dest_ip, dest_port))
    os.rename(tmp, final)


def present(vdir, port):
    return os.path.exists(os.path.join(vdir, "audit", audit_key_hex(port)))


def events(vdir):
    out = []
    try:
        with open(os.path.join(vdir, "events.log")) as f:
            for line in f:
                p = line.split()
                if len(p) >= 3:
                    out.append({"seq": int(p[0]), "ns": int(p[1]), "op": p[2], "args": p[3:]})
    except FileNotFoundError:
        pass
    return out

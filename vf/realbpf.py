"""Real-kernel engine: the eBPF object built from the unmodified linux-ebpf/ebpf_cgroup.c is loaded by the agent's own
BpfObject (aya), its maps are real kernel maps, and its cgroup/connect4 program is attached to a private child cgroup.
The kprobe half cannot be attached here (kernel without CONFIG_KPROBES): the driver writes the audit record the second
hook would write."""
import os, socket, struct, subprocess, time
from . import common, wproxy, shim as shimmod, mockhost, rawhttp

OBJ = os.path.join(common.TARGET, "ebpf_cgroup.o")
CONNECTOR = os.path.join(common.TARGET, "connector")
CGROOT = "/sys/fs/cgroup/unified"


def build():
    os.makedirs(common.TARGET, exist_ok=True)
    inc = os.path.join(common.VERIF, "ebpf_model", "bpf_include")
    p = subprocess.run(["clang", "-g", "-O2", "-target", "bpf", "-D__TARGET_ARCH_x86", "-I", inc, "-I/usr/include/x86_64-linux-gnu",
                        "-c", "/repo/linux-ebpf/ebpf_cgroup.c", "-o", OBJ], stdout=subprocess.PIPE, stderr=subprocess.STDOUT)
    if p.returncode != 0:
        return "bpf-target build failed: " + p.stdout.decode()[-800:]
    src = os.path.join(common.VERIF, "csrc", "connector.c")
    if not os.path.exists(CONNECTOR) or os.path.getmtime(CONNECTOR) < os.path.getmtime(src):
        subprocess.run(["clang", "-O1", "-o", CONNECTOR, src], check=True)
    return None


def hexwords(*words):
    return b"".join(struct.pack("<I", w & 0xFFFFFFFF) for w in words).hex()


def audit_key(port):
    return hexwords(6, port)


def audit_value_hex(uid, pid, is_root, ip, port):
    from . import standin
    return standin.audit_value(uid, pid, is_root, ip, port).hex()


def policy_key_hex(ip, port):
    return (socket.inet_aton(ip) + b"\0" * 12 + struct.pack(">H", port) + b"\0\0" + struct.pack("<I", 6)).hex()


class Kernel:
    """loads the object, attaches connect4 to a private cgroup that contains this process and its children"""

    def __init__(self, scratch, runtime="multi:4", endpoints=(True, True, True), handler=None, env=None):
        self.scratch = scratch
        self.unavailable = None
        self.cg = None
        if not os.path.isdir(CGROOT):
            self.unavailable = "no cgroup2 mount at %s" % CGROOT
            return
        self.cg = os.path.join(CGROOT, "gpa-verif-%d" % os.getpid())
        try:
            os.makedirs(self.cg, exist_ok=True)
            with open(os.path.join(self.cg, "cgroup.procs"), "w") as f:
                f.write(str(os.getpid()))
        except OSError as e:
            self.unavailable = "cannot create child cgroup: %r" % (e,)
            return
        wproxy.write_passwd()
        self.mocks = {}
        self.handler = handler or wproxy.World.default_handler
        for name in ("wireserver", "hostga", "imds", "other"):
            ip, port = wproxy.DESTS[name]
            self.mocks[name] = mockhost.MockHost(ip, port, lambda r, n=name: self.handler(n, r), name=name)
        self.shim = shimmod.Shim(os.path.join(scratch, "shim"), runtime=runtime, env=env)   # no GPA_VERIF_DIR: the production map path is used
        self.shim.call("init", log_dir="/var/log/azure-proxy-agent", log_level="Trace")
        # one start attempt that got as far as the start-up map updates and was then abandoned (the production retry loop creates a
        # fresh object per attempt; on this kernel every real attempt fails at the kprobe attach): the live object below is the retry
        self.failed_attempt = self.shim.call("bpf_failed_start_attempt", path=OBJ, local_port=3080)
        r = self.shim.call("bpf_load", path=OBJ)
        if "err" in r:
            self.unavailable = "BpfObject::from_ebpf_file failed: " + r["err"]
            return
        self.map_ids = r["map_ids"]
        self.startup = self.shim.call("bpf_startup_maps", wireserver=endpoints[0], imds=endpoints[1], hostga=endpoints[2], local_port=3080)
        self.attach = self.shim.call("bpf_attach_cgroup", cgroup=self.cg)      # program load = kernel verifier, then attach
        self.kprobe = self.shim.call("bpf_attach_kprobe")
        self.shim.call("bpf_install", local_port=3080)
        self.shim.call("proxy_start", port=3080)
        t0 = time.time()
        while time.time() - t0 < 10:
            s = socket.socket()
            try:
                s.connect(("127.0.0.1", 3080)); s.close(); break
            except OSError:
                s.close(); time.sleep(0.02)

    def map(self, name, action="dump", **kw):
        return self.shim.call("bpf_map", map=name, action=action, **kw)

    def connector(self, ip, port, proto, vid, uid=0, gid=0):
        return subprocess.Popen([CONNECTOR, ip, str(port), proto, vid], stdin=subprocess.PIPE, stdout=subprocess.PIPE, user=uid, group=gid, extra_groups=[], bufsize=0)

    @staticmethod
    def read_lines(proc, timeout=3.0, until=None):
        """lines the connector prints within the timeout (stops early when a line starts with one of `until`)"""
        import select
        out = []
        buf = getattr(proc, "_vf_buf", b"")
        t0 = time.time()
        fd = proc.stdout.fileno()
        while time.time() - t0 < timeout:
            while b"\n" in buf:
                line, buf = buf.split(b"\n", 1)
                out.append(line.decode(errors="replace").strip())
                if until and out[-1].startswith(until):
                    proc._vf_buf = buf
                    return out
            r, _, _ = select.select([fd], [], [], 0.2)
            if r:
                d = os.read(fd, 65536)
                if not d:
                    break
                buf += d
        proc._vf_buf = buf
        return out

    def close(self):
        try:
            self.shim.close()
        except Exception:
            pass
        for m in getattr(self, "mocks", {}).values():
            m.close()
        if self.cg:
            try:
                with open(os.path.join(CGROOT, "cgroup.procs"), "w") as f:
                    f.write(str(os.getpid()))
            except OSError:
                pass
            for _ in range(20):
                try:
                    os.rmdir(self.cg); break
                except OSError:
                    time.sleep(0.05)

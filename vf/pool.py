"""A pool of un-sandboxed shim processes for pure (no network) RPC work."""
import os, shutil, tempfile, threading, queue
from . import shim as shimmod, common


class ShimPool:
    def __init__(self, n=8, runtime="multi:2", init=True, env=None):
        self.root = tempfile.mkdtemp(prefix="gpa-verif.", dir="/var/tmp")
        self.shims = []
        for i in range(n):
            s = shimmod.Shim(os.path.join(self.root, "s%d" % i), runtime=runtime, env=env)
            if init:
                s.call("init", log_dir=os.path.join(self.root, "s%d" % i, "logs"), log_level="Trace")
            self.shims.append(s)

    def map(self, op, batches, key="cases"):
        """batches: list of lists; returns list of result lists in order"""
        q = queue.Queue()
        for i, b in enumerate(batches):
            q.put((i, b))
        out = [None] * len(batches)
        errs = []

        def work(s):
            while True:
                try:
                    i, b = q.get_nowait()
                except queue.Empty:
                    return
                try:
                    out[i] = s.call(op, timeout=600, **{key: b})["results"]
                except Exception as e:  # noqa
                    errs.append(repr(e))
                    out[i] = None
        ts = [threading.Thread(target=work, args=(s,)) for s in self.shims]
        for t in ts:
            t.start()
        for t in ts:
            t.join()
        if errs:
            raise common.Inconclusive("shim pool: %s" % errs[0])
        return out

    def panics(self):
        p = []
        for s in self.shims:
            try:
                p += s.panics()
            except Exception:
                pass
        return p

    def close(self):
        for s in self.shims:
            s.close()
        shutil.rmtree(self.root, ignore_errors=True)

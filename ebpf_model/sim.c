/* ebpf_sim: user-space build of the UNMODIFIED linux-ebpf/ebpf_cgroup.c driven by a script on stdin.
 * Built with -fsanitize=address,undefined: map keys/values live in exact-size heap blocks so any
 * out-of-bounds access by the program is reported. */
#include <stdio.h>
#include <stdlib.h>
#include <string.h>
#include <stdarg.h>
#include <errno.h>
#include <arpa/inet.h>

#include "/repo/linux-ebpf/ebpf_cgroup.c"

/* ---------------- model maps ---------------- */
struct entry { void *key, *value; unsigned long used; };
struct model_map { void *def; const char *name; size_t ks, vs; int type, cap, n; struct entry *e; };
static struct model_map maps[16];
static int nmaps;
static unsigned long tick;
static int verbose;

struct model_map *model_map_get(void *def, const char *name, size_t ks, size_t vs, int type, int cap)
{
    for (int i = 0; i < nmaps; i++)
        if (maps[i].def == def) return &maps[i];
    struct model_map *m = &maps[nmaps++];
    m->def = def; m->name = (name[0] == 0x26) ? name + 1 : name; m->ks = ks; m->vs = vs; m->type = type; m->cap = cap; m->n = 0;
    m->e = calloc(cap, sizeof(struct entry));
    return m;
}
static int find(struct model_map *m, const void *key)
{
    for (int i = 0; i < m->n; i++)
        if (memcmp(m->e[i].key, key, m->ks) == 0) return i;
    return -1;
}
void *model_map_lookup(struct model_map *m, const void *key, size_t kobj)
{
    if (kobj != m->ks) { printf("MODEL-ERROR lookup key object size %zu != map key size %zu (%s)\n", kobj, m->ks, m->name); }
    int i = find(m, key);
    if (i < 0) return NULL;
    m->e[i].used = ++tick;
    return m->e[i].value;
}
long model_map_update(struct model_map *m, const void *key, size_t kobj, const void *value, size_t vobj, __u64 flags)
{
    if (kobj != m->ks || vobj != m->vs) { printf("MODEL-ERROR update object sizes %zu/%zu != map sizes %zu/%zu (%s)\n", kobj, vobj, m->ks, m->vs, m->name); }
    int i = find(m, key);
    /* flags as documented for bpf_map_update_elem: BPF_ANY 0, BPF_NOEXIST 1, BPF_EXIST 2 */
    if ((flags & 3) == BPF_NOEXIST && i >= 0) return -EEXIST;
    if ((flags & 3) == BPF_EXIST && i < 0) return -ENOENT;
    if (i < 0) {
        if (m->n == m->cap) {
            if (m->type != BPF_MAP_TYPE_LRU_HASH) return -E2BIG;
            int lru = 0;
            for (int j = 1; j < m->n; j++) if (m->e[j].used < m->e[lru].used) lru = j;
            printf("evict %s\n", m->name);
            free(m->e[lru].key); free(m->e[lru].value);
            m->e[lru] = m->e[m->n - 1]; m->n--;
        }
        i = m->n++;
        m->e[i].key = malloc(m->ks); m->e[i].value = malloc(m->vs);
        memcpy(m->e[i].key, key, m->ks);
    }
    memcpy(m->e[i].value, value, m->vs);
    m->e[i].used = ++tick;
    return 0;
}
long model_map_delete(struct model_map *m, const void *key, size_t kobj)
{
    int i = find(m, key);
    if (i < 0) return -ENOENT;
    free(m->e[i].key); free(m->e[i].value);
    m->e[i] = m->e[m->n - 1]; m->n--;
    return 0;
}

/* ---------------- current task ---------------- */
static __u32 cur_tid, cur_tgid, cur_uid, cur_gid;
__u64 model_get_current_pid_tgid(void) { return ((__u64)cur_tgid << 32) | cur_tid; }   /* tgid << 32 | pid (thread id) */
__u64 model_get_current_uid_gid(void) { return ((__u64)cur_gid << 32) | cur_uid; }     /* gid << 32 | uid */
__u64 model_get_socket_cookie(void *ctx) { return (__u64)(unsigned long)ctx; }
long model_probe_read(void *dst, __u32 size, const void *src) { memcpy(dst, src, size); return 0; }
void model_printk(const char *fmt, ...) { if (!verbose) return; va_list ap; va_start(ap, fmt); vprintf(fmt, ap); va_end(ap); printf("\n"); }

/* ---------------- script ---------------- */
static void hex(const void *p, size_t n) { const unsigned char *b = p; for (size_t i = 0; i < n; i++) printf("%02x", b[i]); }
static size_t unhex(const char *s, unsigned char *out, size_t max)
{
    size_t n = 0;
    while (s[0] && s[1] && n < max) { unsigned v; sscanf(s, "%2x", &v); out[n++] = (unsigned char)v; s += 2; }
    return n;
}
struct task { __u32 tid, tgid, uid, gid; };
static struct task tasks[4096];

static void dump(struct model_map *m)
{
    for (int i = 0; i < m->n; i++) { printf("entry %s ", m->name); hex(m->e[i].key, m->ks); printf(" "); hex(m->e[i].value, m->vs); printf("\n"); }
    printf("end %s %d\n", m->name, m->n);
}

int main(int argc, char **argv)
{
    char line[1024];
    verbose = getenv("VF_VERBOSE") != NULL;
    /* instantiate the maps from the program's own definitions */
    struct model_map *skip = VF_MAP(&skip_process_map), *policy = VF_MAP(&policy_map), *audit = VF_MAP(&audit_map), *local = VF_MAP(&local_map);
    printf("maps skip=%zu/%zu/%d/%d policy=%zu/%zu/%d/%d audit=%zu/%zu/%d/%d local=%zu/%zu/%d/%d\n", skip->ks, skip->vs, skip->type, skip->cap,
           policy->ks, policy->vs, policy->type, policy->cap, audit->ks, audit->vs, audit->type, audit->cap, local->ks, local->vs, local->type, local->cap);
    while (fgets(line, sizeof line, stdin)) {
        char cmd[32]; unsigned a, b, c, d, e, f;
        if (sscanf(line, "%31s", cmd) != 1) continue;
        if (!strcmp(cmd, "task")) { sscanf(line, "%*s %u %u %u %u %u", &a, &b, &c, &d, &e); tasks[a] = (struct task){b, c, d, e}; }
        else if (!strcmp(cmd, "skip")) { sscanf(line, "%*s %u", &a); __u32 k = a; model_map_update(skip, &k, sizeof k, &k, sizeof k, 0); }
        else if (!strcmp(cmd, "policy")) {
            char k[256], v[256]; unsigned char kb[64], vb[64];
            sscanf(line, "%*s %255s %255s", k, v);
            size_t kn = unhex(k, kb, sizeof kb), vn = unhex(v, vb, sizeof vb);
            if (kn != policy->ks || vn != policy->vs) printf("MODEL-ERROR policy bytes from user space have sizes %zu/%zu, kernel map has %zu/%zu\n", kn, vn, policy->ks, policy->vs);
            else printf("policy-insert %ld\n", model_map_update(policy, kb, policy->ks, vb, policy->vs, 0));
        }
        else if (!strcmp(cmd, "policydel")) { char k[256]; unsigned char kb[64]; sscanf(line, "%*s %255s", k); unhex(k, kb, sizeof kb); model_map_delete(policy, kb, policy->ks); }
        else if (!strcmp(cmd, "connect4")) {
            /* connect4 <task> <family> <protocol> <dotted ip> <port> */
            char ip[64];
            sscanf(line, "%*s %u %u %u %63s %u", &a, &b, &c, ip, &d);
            struct task *t = &tasks[a];
            cur_tid = t->tid; cur_tgid = t->tgid; cur_uid = t->uid; cur_gid = t->gid;
            struct bpf_sock_addr *ctx = calloc(1, sizeof *ctx);
            ctx->user_family = b; ctx->family = b; ctx->protocol = c; ctx->type = (c == 6) ? 1 : 2;
            ctx->user_ip4 = inet_addr(ip);          /* network byte order */
            ctx->user_port = htons((unsigned short)d); /* network byte order in the low 16 bits */
            int r = connect4(ctx);
            struct in_addr ia = { ctx->user_ip4 };
            printf("ctx %s %u ret=%d\n", inet_ntoa(ia), ntohs((unsigned short)ctx->user_port), r);
            free(ctx);
        }
        else if (!strcmp(cmd, "tcpconnect")) {
            /* tcpconnect <task> <family> <source port> <dotted daddr> <dport> */
            char ip[64];
            sscanf(line, "%*s %u %u %u %63s %u", &a, &b, &c, ip, &d);
            struct task *t = &tasks[a];
            cur_tid = t->tid; cur_tgid = t->tgid; cur_uid = t->uid; cur_gid = t->gid;
            struct probe_sock *sk = calloc(1, sizeof *sk);
            sk->__sk_common.skc_family = (unsigned short)b;
            sk->__sk_common.skc_num = (unsigned short)c;            /* host byte order */
            sk->__sk_common.skc_dport = htons((unsigned short)d);   /* network byte order */
            sk->__sk_common.skc_daddr = inet_addr(ip);
            struct pt_regs regs; memset(&regs, 0, sizeof regs);
            regs.rdi = (unsigned long)sk;
            int r = tcp_v4_connect(&regs);
            printf("traced ret=%d\n", r);
            free(sk);
        }
        else if (!strcmp(cmd, "dump")) { dump(audit); dump(local); }
        else if (!strcmp(cmd, "dumppolicy")) { dump(policy); }
        else printf("MODEL-ERROR unknown command %s\n", cmd);
    }
    return 0;
}

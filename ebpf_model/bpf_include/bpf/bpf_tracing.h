#ifndef VF_BPF_TARGET_TRACING_H
#define VF_BPF_TARGET_TRACING_H
#define PT_REGS_PARM1(x) ((x)->rdi)
#define BPF_KPROBE(name, args...)                                                     \
    name(struct pt_regs *ctx);                                                        \
    static __always_inline typeof(name(0)) ____##name(struct pt_regs *ctx, ##args);   \
    typeof(name(0)) name(struct pt_regs *ctx)                                         \
    {                                                                                 \
        return ____##name(ctx, (void *)PT_REGS_PARM1(ctx));                           \
    }                                                                                 \
    static __always_inline typeof(name(0)) ____##name(struct pt_regs *ctx, ##args)
#endif

/* Model of the documented BPF helper / map semantics (bpf-helpers(7), linux/bpf.h). */
#ifndef VF_MODEL_H
#define VF_MODEL_H
#include <stddef.h>
#include <linux/types.h>

struct model_map;
struct model_map *model_map_get(void *def, const char *name, size_t key_size, size_t value_size, int type, int max_entries);
void *model_map_lookup(struct model_map *m, const void *key, size_t key_obj_size);
long model_map_update(struct model_map *m, const void *key, size_t key_obj_size, const void *value, size_t value_obj_size, __u64 flags);
long model_map_delete(struct model_map *m, const void *key, size_t key_obj_size);
__u64 model_get_current_pid_tgid(void);
__u64 model_get_current_uid_gid(void);
__u64 model_get_socket_cookie(void *ctx);
long model_probe_read(void *dst, __u32 size, const void *src);
void model_printk(const char *fmt, ...);
#endif

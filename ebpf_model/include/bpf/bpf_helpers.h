/* Shim of libbpf's bpf_helpers.h for a USER-SPACE build of the unmodified linux-ebpf/ebpf_cgroup.c.
 * Same macro shapes as libbpf (SEC, __uint, __type, __always_inline, bpf_printk); every helper the
 * program calls is mapped onto the model in model.h, with the semantics documented in bpf-helpers(7). */
#ifndef VF_BPF_HELPERS_H
#define VF_BPF_HELPERS_H
#include <linux/types.h>
#include "../model.h"

#define SEC(name)
#define __uint(name, val) int (*name)[val]
#define __type(name, val) typeof(val) *name
#ifndef __always_inline
#define __always_inline inline __attribute__((always_inline))
#endif
#define bpf_printk(fmt, ...) model_printk(fmt, ##__VA_ARGS__)

/* key size, value size, map type and capacity are recovered from the definition the C file itself declares */
#define VF_MAP(map) model_map_get((void *)(map), #map, sizeof(*(map)->key), sizeof(*(map)->value), \
                                  sizeof(*(map)->type) / sizeof(int), sizeof(*(map)->max_entries) / sizeof(int))
#define bpf_map_lookup_elem(map, key) model_map_lookup(VF_MAP(map), (key), sizeof(*(key)))
#define bpf_map_update_elem(map, key, value, flags) model_map_update(VF_MAP(map), (key), sizeof(*(key)), (value), sizeof(*(value)), (flags))
#define bpf_map_delete_elem(map, key) model_map_delete(VF_MAP(map), (key), sizeof(*(key)))

#define bpf_get_current_pid_tgid() model_get_current_pid_tgid()
#define bpf_get_current_uid_gid() model_get_current_uid_gid()
#define bpf_get_socket_cookie(ctx) model_get_socket_cookie((void *)(ctx))
#define bpf_probe_read(dst, size, src) model_probe_read((dst), (size), (src))
#define bpf_probe_read_kernel(dst, size, src) model_probe_read((dst), (size), (src))
#endif
